// Correspondence + judge harness for the runner (C04, C05, C09). Built INTO the repo's module with
// `go build -overlay -tags verif` as package github.com/pgavlin/dawn/cmd/verif_runner; not part of /repo.
//
// Output, one record per line, tab separated:
//   C <stream> <driver input> <Go's canonical answer>     correspondence pair (tie 2: trace refinement / final-state check)
//   V <json>                                             a property's own predicate failed on the implementation
//   S <json>                                             statistics of this run
//
// The parent process generates jobs and runs them in child processes (a deadlock verdict leaks goroutines,
// a free-running hang must be killed): `-child ctl` serialises the real goroutines under the controlled
// scheduler (sched.go), `-child stress` lets them run freely with the real runtime.NumCPU() limit (the parent
// pins the child with taskset).
package main

import (
	"bufio"
	"encoding/json"
	"errors"
	"flag"
	"fmt"
	"os"
	"os/exec"
	"runtime"
	"sort"
	"strconv"
	"strings"
	"sync"
	"sync/atomic"
	"time"

	"github.com/pgavlin/dawn/runner"
)

// ---------------------------------------------------------------- PRNG (all randomness derives from -seed)

type rng struct{ s uint64 }

func (r *rng) next() uint64 {
	r.s += 0x9E3779B97F4A7C15
	z := r.s
	z = (z ^ (z >> 30)) * 0xBF58476D1CE4E5B9
	z = (z ^ (z >> 27)) * 0x94D049BB133111EB
	return z ^ (z >> 31)
}
func (r *rng) below(n int) int { return int(r.next() % uint64(n)) }

// ---------------------------------------------------------------- graphs

type graph struct {
	n     int
	cap   int // parallelism limit forced under the controlled scheduler; 0 = leave runtime.NumCPU()
	root  int
	deps  [][]int
	known []bool
	body  []bool
}

func bits(bs []bool) string {
	var b strings.Builder
	for _, x := range bs {
		if x {
			b.WriteByte('1')
		} else {
			b.WriteByte('0')
		}
	}
	return b.String()
}

// params: "<n>;<cap>;<root>;<deps>;<known>;<body>", deps = per label "a.b.c" or "-" joined by "/"
func (g *graph) params() string {
	ds := make([]string, g.n)
	for i, d := range g.deps {
		if len(d) == 0 {
			ds[i] = "-"
			continue
		}
		xs := make([]string, len(d))
		for j, x := range d {
			xs[j] = strconv.Itoa(x)
		}
		ds[i] = strings.Join(xs, ".")
	}
	return fmt.Sprintf("%d;%d;%d;%s;%s;%s", g.n, g.cap, g.root, strings.Join(ds, "/"), bits(g.known), bits(g.body))
}

func parseParams(s string) (*graph, error) {
	f := strings.Split(s, ";")
	if len(f) != 6 {
		return nil, fmt.Errorf("bad params %q", s)
	}
	g := &graph{}
	var err error
	if g.n, err = strconv.Atoi(f[0]); err != nil {
		return nil, err
	}
	if g.cap, err = strconv.Atoi(f[1]); err != nil {
		return nil, err
	}
	if g.root, err = strconv.Atoi(f[2]); err != nil {
		return nil, err
	}
	ds := strings.Split(f[3], "/")
	if len(ds) != g.n || len(f[4]) != g.n || len(f[5]) != g.n {
		return nil, fmt.Errorf("bad params %q", s)
	}
	g.deps = make([][]int, g.n)
	for i, d := range ds {
		if d == "-" {
			continue
		}
		for _, x := range strings.Split(d, ".") {
			v, err := strconv.Atoi(x)
			if err != nil || v < 0 || v >= g.n {
				return nil, fmt.Errorf("bad dep %q", x)
			}
			g.deps[i] = append(g.deps[i], v)
		}
	}
	for i := 0; i < g.n; i++ {
		g.known = append(g.known, f[4][i] == '1')
		g.body = append(g.body, f[5][i] == '1')
	}
	return g, nil
}

// edges of a label: an unknown target never asks for dependencies
func (g *graph) edges(l int) []int {
	if !g.known[l] {
		return nil
	}
	return g.deps[l]
}

func (g *graph) reachable() []bool {
	seen := make([]bool, g.n)
	var dfs func(int)
	dfs = func(l int) {
		if seen[l] {
			return
		}
		seen[l] = true
		for _, d := range g.edges(l) {
			dfs(d)
		}
	}
	dfs(g.root)
	return seen
}

// onCycle[l]: l reaches itself through at least one edge
func (g *graph) onCycle() []bool {
	out := make([]bool, g.n)
	for l := 0; l < g.n; l++ {
		seen := make([]bool, g.n)
		var dfs func(int) bool
		dfs = func(x int) bool {
			for _, d := range g.edges(x) {
				if d == l {
					return true
				}
				if !seen[d] {
					seen[d] = true
					if dfs(d) {
						return true
					}
				}
			}
			return false
		}
		out[l] = dfs(l)
	}
	return out
}

func (g *graph) cyclicReachable() bool {
	r, c := g.reachable(), g.onCycle()
	for l := 0; l < g.n; l++ {
		if r[l] && c[l] {
			return true
		}
	}
	return false
}

// ---------------------------------------------------------------- the client of the runner: Targets / Target over a graph

type tErr struct {
	kind  string // unknown | depFailed | body
	label int
}

func (e *tErr) Error() string { return fmt.Sprintf("%s(%d)", e.kind, e.label) }

func errKind(err error) string {
	if err == nil {
		return "none"
	}
	var te *tErr
	if errors.As(err, &te) {
		return te.kind
	}
	var ce runner.CyclicDependencyError
	if errors.As(err, &ce) {
		return "cyclic"
	}
	return "other"
}

type violation struct {
	Property string `json:"property"`
	Kind     string `json:"kind"`
	Detail   string `json:"detail"`
	Input    any    `json:"input"`
}

type run struct {
	g        *graph
	s        *sched // nil: free running
	rn       *runner.VerifRunner
	limit    int // the parallelism limit in force
	loads    []int32
	evals    []int32
	inside   int32
	maxIn    int32
	finished []atomic.Bool
	actual   []error // outcome of each label (written before finished is set)
	cyc      []atomic.Bool
	tgts     []*tgt
	capLo    int32
	capHi    int32
	spin     *rng // free running: random work inside bodies
	burst    int32 // free running, burst family: slot holders finish the rest of Evaluate in groups of this size
	bursting int32
	barrier  int32 // free running, fan-in family: dependents of the root meet before they request their dependencies
	arrived  int32
	spinMu   sync.Mutex
	vmu      sync.Mutex
	viols    []violation
	orderLog []string // controlled runs: labels in the order their outcome was computed (failed load / rest of Evaluate)
}

func newRun(g *graph, s *sched, limit int) *run {
	r := &run{g: g, s: s, limit: limit, loads: make([]int32, g.n), evals: make([]int32, g.n),
		finished: make([]atomic.Bool, g.n), actual: make([]error, g.n), cyc: make([]atomic.Bool, g.n),
		capLo: int32(limit), capHi: int32(limit)}
	for i := 0; i < g.n; i++ {
		r.tgts = append(r.tgts, &tgt{r: r, l: i})
	}
	return r
}

func (r *run) violate(prop, kind, detail string) {
	r.vmu.Lock()
	defer r.vmu.Unlock()
	if len(r.viols) < 20 {
		r.viols = append(r.viols, violation{Property: prop, Kind: kind, Detail: detail})
	}
}

func (r *run) sawCapacity(c int) {
	for {
		lo := atomic.LoadInt32(&r.capLo)
		if int32(c) >= lo || atomic.CompareAndSwapInt32(&r.capLo, lo, int32(c)) {
			break
		}
	}
	for {
		hi := atomic.LoadInt32(&r.capHi)
		if int32(c) <= hi || atomic.CompareAndSwapInt32(&r.capHi, hi, int32(c)) {
			break
		}
	}
}

func (r *run) enterBody(what string, l int) {
	n := atomic.AddInt32(&r.inside, 1)
	for {
		m := atomic.LoadInt32(&r.maxIn)
		if n <= m || atomic.CompareAndSwapInt32(&r.maxIn, m, n) {
			break
		}
	}
	if int(n) > r.limit {
		r.violate("C09", "occupancy", fmt.Sprintf("%d targets executing (limit %d) when %d entered %s", n, r.limit, l, what))
	}
}
func (r *run) leaveBody() { atomic.AddInt32(&r.inside, -1) }

func (r *run) work() {
	if r.spin == nil {
		return
	}
	r.spinMu.Lock()
	k := r.spin.below(8)
	r.spinMu.Unlock()
	switch {
	case k < 3:
	case k < 6:
		runtime.Gosched()
	case k == 6:
		x := 0
		for i := 0; i < 2000; i++ {
			x += i
		}
		_ = x
	default:
		time.Sleep(time.Microsecond * 20)
	}
}

func (r *run) LoadTarget(label string) (runner.Target, error) {
	l, err := strconv.Atoi(label)
	if err != nil || l < 0 || l >= r.g.n {
		return nil, fmt.Errorf("label out of range %q", label)
	}
	if r.s != nil {
		r.s.yield("load", "")
	}
	r.enterBody("LoadTarget", l)
	defer r.leaveBody()
	if n := atomic.AddInt32(&r.loads[l], 1); n > 1 {
		r.violate("C04", "loaded-twice", fmt.Sprintf("LoadTarget(%d) called %d times", l, n))
	}
	r.work()
	if !r.g.known[l] {
		e := &tErr{"unknown", l}
		r.actual[l] = e
		r.finished[l].Store(true)
		if r.s != nil {
			r.s.mu.Lock()
			r.s.log(r.s.me(), "load:unknown")
			r.orderLog = append(r.orderLog, strconv.Itoa(l))
			r.s.mu.Unlock()
		}
		return nil, e
	}
	if r.s != nil {
		r.s.mu.Lock()
		r.s.log(r.s.me(), "load:ok")
		r.s.mu.Unlock()
	}
	return r.tgts[l], nil
}

type tgt struct {
	r *run
	l int
}

// Evaluate is dawn's runTarget.Evaluate reduced to what the runner sees: one EvaluateTargets call with the
// target's dependencies, failure when any result carries an error (reporting a cyclic-dependency error), then the body.
func (t *tgt) Evaluate(e runner.Engine) error {
	r, l := t.r, t.l
	if r.s != nil {
		r.s.yield("eval", "")
	}
	r.enterBody("Evaluate", l)
	if n := atomic.AddInt32(&r.evals[l], 1); n > 1 {
		r.violate("C04", "evaluated-twice", fmt.Sprintf("Evaluate(%d) called %d times", l, n))
	}
	if r.s != nil {
		r.s.mu.Lock()
		r.s.log(r.s.me(), "eval")
		r.s.mu.Unlock()
	}
	r.work()
	if b := atomic.LoadInt32(&r.barrier); b > 0 && l >= 1 && l <= int(b) {
		// client code may do anything while it holds its slot: here, wait (briefly) for the sibling targets so
		// that all of them request the same dependencies at the same moment
		atomic.AddInt32(&r.arrived, 1)
		for spin := 0; atomic.LoadInt32(&r.arrived) < b && spin < 20000; spin++ {
			if spin%64 == 63 {
				runtime.Gosched()
			}
		}
	}
	labels := make([]string, len(r.g.deps[l]))
	for i, d := range r.g.deps[l] {
		labels[i] = strconv.Itoa(d)
	}
	r.leaveBody()
	res := e.EvaluateTargets(labels...)
	r.enterBody("Evaluate (after EvaluateTargets)", l)
	defer r.leaveBody()
	if r.s != nil {
		r.s.yield("rest", "")
	}
	if len(res) != len(labels) {
		r.violate("C04", "result-count", fmt.Sprintf("%d results for %d labels", len(res), len(labels)))
	}
	cyclic, failed := false, false
	kinds := make([]string, len(res))
	for i, x := range res {
		kinds[i] = errKind(x.Error)
		if kinds[i] == "cyclic" {
			cyclic = true
		}
		if x.Error != nil {
			failed = true
		}
	}
	if cyclic {
		r.cyc[l].Store(true)
	} else {
		// the property's own predicate: every requested dependency has finished, and what we are handed is its outcome
		for i, x := range res {
			if i >= len(labels) {
				break
			}
			d := r.g.deps[l][i]
			if !r.finished[d].Load() {
				r.violate("C04", "dep-not-finished", fmt.Sprintf("%d continued past EvaluateTargets while dependency %d has not finished", l, d))
				continue
			}
			if x.Error != r.actual[d] {
				r.violate("C04", "handed-outcome", fmt.Sprintf("%d was handed %q for dependency %d whose outcome is %q", l, errKind(x.Error), d, errKind(r.actual[d])))
			}
			if r.actual[d] == nil && x.Target != runner.Target(r.tgts[d]) {
				r.violate("C04", "handed-target", fmt.Sprintf("%d was handed a wrong Target for dependency %d", l, d))
			}
		}
	}
	if r.s != nil {
		r.s.mu.Lock()
		c := "0"
		if cyclic {
			c = "1"
		}
		r.s.log(r.s.me(), "rest:"+c+":"+strings.Join(append([]string{""}, kinds...), "+"))
		r.orderLog = append(r.orderLog, strconv.Itoa(l))
		r.s.mu.Unlock()
	}
	r.work()
	if b := atomic.LoadInt32(&r.burst); b > 1 && l != r.g.root {
		n := atomic.AddInt32(&r.bursting, 1)
		for spin := 0; atomic.LoadInt32(&r.bursting) < (n+b-1)/b*b && spin < 3000; spin++ {
			if spin%32 == 31 {
				runtime.Gosched()
			}
		}
	}
	var err error
	switch {
	case failed:
		err = &tErr{"depFailed", l}
	case !r.g.body[l]:
		err = &tErr{"body", l}
	}
	r.actual[l] = err
	r.finished[l].Store(true)
	return err
}

// ---------------------------------------------------------------- one execution

type outcome struct {
	verdict verdict
	result  error
	events  string
	choices []string
	summary string
}

var statusCh = []byte{'i', 'r', 's', 'f'}
var errCh = map[string]byte{"none": 'n', "unknown": 'u', "depFailed": 'd', "body": 'b', "cyclic": 'c', "other": 'o'}

// summary of the final state, in the same format as the Lean driver prints for the model
func (r *run) summary(result error) string {
	st := make([]byte, r.g.n)
	er := make([]byte, r.g.n)
	for i := range st {
		st[i], er[i] = 'i', 'n'
	}
	pub := 0
	capNow := -1
	if r.rn != nil {
		for k, v := range r.rn.Targets() {
			l, _ := strconv.Atoi(k)
			if l >= 0 && l < r.g.n {
				st[l] = statusCh[v.Status&3]
				er[l] = errCh[errKind(v.Err)]
				if v.Published {
					pub++
				}
			}
		}
		capNow = r.rn.Capacity()
	}
	cy := make([]bool, r.g.n)
	for i := range cy {
		cy[i] = r.cyc[i].Load()
	}
	num := func(xs []int32) string {
		var b strings.Builder
		for _, x := range xs {
			b.WriteString(strconv.Itoa(int(x)))
		}
		return b.String()
	}
	ord := "-"
	if r.s != nil && len(r.orderLog) > 0 {
		ord = strings.Join(r.orderLog, ".")
	}
	return fmt.Sprintf("res=%s st=%s err=%s cyc=%s loads=%s evals=%s free=%d pub=%d order=%s", errKind(result), st, er, bits(cy),
		num(r.loads), num(r.evals), r.limit-capNow, pub, ord)
}

// judge the finished build by the properties' own predicates (independent of the model)
func (r *run) judgeFinal(result error) {
	g := r.g
	if result != r.actual[g.root] || !r.finished[g.root].Load() {
		r.violate("C04", "result", fmt.Sprintf("Run returned %q, the requested target's outcome is %q", errKind(result), errKind(r.actual[g.root])))
	}
	anyCyc := false
	onc := g.onCycle()
	for l := 0; l < g.n; l++ {
		if r.cyc[l].Load() {
			anyCyc = true
			if !onc[l] {
				r.violate("C05", "false-cycle", fmt.Sprintf("target %d was handed a cyclic-dependency error but lies on no cycle", l))
			}
		}
	}
	cyclic := g.cyclicReachable()
	if cyclic && result == nil {
		r.violate("C05", "cycle-not-failed", "the reachable graph has a cycle but the build succeeded")
	}
	if cyclic && !anyCyc {
		r.violate("C05", "cycle-not-reported", "the reachable graph has a cycle but no cyclic-dependency error was reported")
	}
	if !cyclic && anyCyc {
		r.violate("C05", "false-cycle", "acyclic graph but a cyclic-dependency error was reported")
	}
	if r.rn != nil {
		for k, v := range r.rn.Targets() {
			if v.Published {
				r.violate("C05", "left-published", "target "+k+" has finished but its waiting set is still published (a later cycle walk reads it)")
			}
		}
		if c := r.rn.Capacity(); c != r.limit {
			r.violate("C09", "slots-not-conserved", fmt.Sprintf("capacity %d after the build, limit %d", c, r.limit))
		}
	}
	if lo, hi := atomic.LoadInt32(&r.capLo), atomic.LoadInt32(&r.capHi); lo < 0 || int(hi) > r.limit {
		r.violate("C09", "capacity-range", fmt.Sprintf("gate capacity ranged over [%d,%d], limit %d", lo, hi, r.limit))
	}
	if int(atomic.LoadInt32(&r.maxIn)) > r.limit {
		r.violate("C09", "occupancy", fmt.Sprintf("max %d executing, limit %d", r.maxIn, r.limit))
	}
}

// controlled: one execution of the build under the controlled scheduler with the given picker
func controlled(g *graph, pick func(*sched, []*thread) *thread, watchdog time.Duration) (*run, outcome) {
	s := newSched(g.cap)
	// The cycle walk of a bystander can spin for as long as two other targets stay inside their publish /
	// un-publish window (DESIGN.md §4: termination needs weak fairness). An unfair picker (strict priorities,
	// a guide that ran out) would keep choosing the spinner for ever, so after a generous number of steps
	// every execution falls back to uniformly random choices, which are fair with probability one.
	steps, fairAfter := 0, 300+150*g.n
	fair := &rng{uint64(g.n)*7919 + 17}
	hardMax := 4000 + 2000*g.n
	diverged := false
	s.pick = func(sc *sched, ready []*thread) *thread {
		steps++
		if steps > hardMax {
			diverged = true // even fair scheduling does not end this execution
			return nil
		}
		if steps > fairAfter {
			return ready[fair.below(len(ready))]
		}
		return pick(sc, ready)
	}
	r := newRun(g, s, g.cap)
	runner.VerifInstall(func(ev runner.VerifEvent) { s.point(r, ev) })
	var result error
	go func() {
		t := s.adopt("m")
		result = runner.Run(r, strconv.Itoa(g.root))
		s.mu.Lock()
		var late []string
		for _, n := range s.order {
			// a started target that has not finished loading / evaluating when Run returns: the build is not over
			if l, err := strconv.Atoi(n); err == nil && !r.finished[l].Load() {
				late = append(late, n)
			}
		}
		s.log(t, "return")
		s.mu.Unlock()
		if len(late) > 0 {
			r.violate("C05", "run-returned-early", "Run returned while started targets "+strings.Join(late, ",")+" have not finished")
		}
		s.finish(t)
	}()
	// wait until main is adopted
	for {
		s.mu.Lock()
		ok := s.threads["m"] != nil
		s.mu.Unlock()
		if ok {
			break
		}
		runtime.Gosched()
	}
	v := s.drive(watchdog)
	s.mu.Lock()
	o := outcome{verdict: v, events: strings.Join(s.events, ","), choices: append([]string{}, s.choices...)}
	probs := append([]string{}, s.problems...)
	s.mu.Unlock()
	for _, p := range probs {
		kind := "scheduler-anomaly"
		if strings.HasPrefix(p, "second goroutine spawned") {
			kind = "spawned-twice" // a target that was already started has been started again
		}
		r.violate("C04", kind, p)
	}
	if v.kind == "pruned" && diverged {
		// do not release the goroutines: a walk that never ends would overflow the stack of this process
		v = verdict{"diverged", fmt.Sprintf("no end after %d scheduling steps (fair random choices since step %d): %s", hardMax, fairAfter, func() string { s.mu.Lock(); defer s.mu.Unlock(); return s.describe() }())}
	} else if v.kind == "pruned" {
		s.release()
	}
	if v.kind == "done" {
		o.result = result
		r.judgeFinal(result)
		o.summary = r.summary(result)
	}
	return r, o
}

// ---------------------------------------------------------------- pickers

func pickRandom(rg *rng) func(*sched, []*thread) *thread {
	return func(s *sched, ready []*thread) *thread { return ready[rg.below(len(ready))] }
}

// PCT (Burckhardt et al.): random initial priorities; at each of d random change points the thread that
// would run next is demoted below every other thread
func pickPCT(rg *rng, d, est int) func(*sched, []*thread) *thread {
	change := map[int]bool{}
	for i := 0; i < d; i++ {
		change[rg.below(est)] = true
	}
	prio := map[*thread]int{}
	low := 0
	step := 0
	best := func(ready []*thread) *thread {
		var b *thread
		for _, t := range ready {
			if _, ok := prio[t]; !ok {
				prio[t] = 1 + rg.below(1000000)
			}
			if b == nil || prio[t] > prio[b] {
				b = t
			}
		}
		return b
	}
	return func(s *sched, ready []*thread) *thread {
		b := best(ready)
		if change[step] {
			low--
			prio[b] = low
			b = best(ready)
		}
		step++
		return b
	}
}

// gate contention: fill the gate, queue as many targets as possible in gate.enter, release slots back to back and
// let a signalled waiter re-test the capacity as late as possible (the window in which a second release, or a
// barging entrant, meets a gate whose only signalled waiter has not run yet)
func pickGate(rg *rng) func(*sched, []*thread) *thread {
	return func(s *sched, ready []*thread) *thread {
		var block, exits, rest, rewake, incs []*thread
		for _, t := range ready {
			if t.at == "blockcs" {
				incs = append(incs, t)
			}
		}
		if len(incs) > 0 {
			// a waiter stands between its capacity test and its Wait: run a release now if there is one
			for _, t := range ready {
				if t.at == "exit" && rg.below(10) < 9 {
					return t
				}
			}
			if rg.below(4) != 0 {
				return incs[rg.below(len(incs))]
			}
		}
		for _, t := range ready {
			switch {
			case t.at == "blockcs":
				rest = append(rest, t)
			case t.at == "rewake":
				rewake = append(rewake, t)
			case t.at == "enter" && s.capacity == 0:
				block = append(block, t)
			case t.at == "exit":
				exits = append(exits, t)
			default:
				rest = append(rest, t)
			}
		}
		pick := func(xs []*thread) *thread { return xs[rg.below(len(xs))] }
		k := rg.below(10)
		switch {
		case len(block) > 0 && k < 8:
			return pick(block)
		case len(exits) > 0 && len(s.gateQ)+len(rewake) > 0 && k < 8:
			return pick(exits)
		case len(rest) > 0 && k < 9:
			return pick(rest)
		case len(exits) > 0 && len(rest) == 0 && len(rewake) > 0 && k < 7:
			return pick(exits)
		case len(rewake) > 0 && len(rest)+len(exits)+len(block) == 0:
			return pick(rewake)
		}
		return pick(ready)
	}
}

// follow a schedule (thread names); afterwards prefer enabled threads, lowest name first
func pickGuided(guide []string, rg *rng) func(*sched, []*thread) *thread {
	i := 0
	return func(s *sched, ready []*thread) *thread {
		for i < len(guide) {
			n := guide[i]
			i++
			for _, t := range ready {
				if t.name == n {
					return t
				}
			}
		}
		var en []*thread
		for _, t := range ready {
			if s.enabled(t) {
				en = append(en, t)
			}
		}
		if len(en) == 0 {
			en = ready
		}
		if rg != nil {
			return en[rg.below(len(en))]
		}
		return en[0]
	}
}

// ---------------------------------------------------------------- exhaustive exploration with sleep sets

type cand struct {
	name string
	op   opKey
}
type frame struct {
	cands []cand
	idx   int
	sleep map[string]opKey
}

type dfsState struct {
	stack    []*frame
	depth    int
	maxDepth int
	cut      int
	mismatch string
}

func (d *dfsState) pick(s *sched, ready []*thread) *thread {
	var en []*thread
	for _, t := range ready {
		if s.enabled(t) {
			en = append(en, t)
		}
	}
	find := func(n string) *thread {
		for _, t := range ready {
			if t.name == n {
				return t
			}
		}
		return nil
	}
	if d.depth >= d.maxDepth {
		d.cut++
		return nil // depth bound (a bystander's walk can spin): abandon this branch
	}
	if d.depth < len(d.stack) {
		f := d.stack[d.depth]
		d.depth++
		t := find(f.cands[f.idx].name)
		if t == nil {
			d.mismatch = "replay diverged: " + f.cands[f.idx].name + " not ready at depth " + strconv.Itoa(d.depth-1)
		}
		return t
	}
	// new state: sleep set inherited from the parent
	sleep := map[string]opKey{}
	if len(d.stack) > 0 {
		p := d.stack[len(d.stack)-1]
		chosen := p.cands[p.idx]
		for n, op := range p.sleep {
			if independent(op, chosen.op) {
				sleep[n] = op
			}
		}
		for _, c := range p.cands[:p.idx] {
			if independent(c.op, chosen.op) {
				sleep[c.name] = c.op
			}
		}
	}
	f := &frame{sleep: sleep}
	if len(en) == 0 {
		// nothing can complete its operation: let a disabled thread run into its cond.Wait (the controller
		// reports the deadlock when nothing is left)
		t := ready[0]
		o, w := pendingObject(t)
		f.cands = []cand{{t.name, opKey{o, w}}}
	} else {
		for _, t := range en {
			if _, asleep := sleep[t.name]; asleep {
				continue
			}
			o, w := pendingObject(t)
			f.cands = append(f.cands, cand{t.name, opKey{o, w}})
		}
		if len(f.cands) == 0 {
			return nil // every enabled thread is asleep: this interleaving is covered elsewhere
		}
	}
	d.stack = append(d.stack, f)
	d.depth++
	return find(f.cands[0].name)
}

// advance to the next unexplored branch; false when the tree is exhausted
func (d *dfsState) next() bool {
	for len(d.stack) > 0 {
		f := d.stack[len(d.stack)-1]
		if f.idx+1 < len(f.cands) {
			f.idx++
			d.depth = 0
			return true
		}
		d.stack = d.stack[:len(d.stack)-1]
	}
	return false
}

// ---------------------------------------------------------------- child: controlled jobs

type job struct {
	Stream string `json:"stream"`
	Params string `json:"params"`
	Strat  string `json:"strat"` // rand | pct | guide | dfs
	Seed   uint64 `json:"seed"`
	Guide  string `json:"guide,omitempty"` // dot separated thread names
	Budget int    `json:"budget,omitempty"`
	TimeMs int    `json:"time_ms,omitempty"` // dfs: stop after this long
}

func emitViolations(w *bufio.Writer, r *run, j job, o outcome) int {
	for _, v := range r.viols {
		v.Input = map[string]any{"params": j.Params, "mode": "schedule", "schedule": strings.Join(o.choices, ".")}
		b, _ := json.Marshal(v)
		fmt.Fprintf(w, "V\t%s\n", b)
	}
	return len(r.viols)
}

func reportExecution(w *bufio.Writer, r *run, j job, o outcome) (fatal bool) {
	switch o.verdict.kind {
	case "pruned":
		return false
	case "done":
		fmt.Fprintf(w, "C\t%s\ttrace %s %s\tok %s\n", j.Stream, j.Params, o.events, o.summary)
	case "deadlock":
		props := "C05"
		r.violate(props, "deadlock", "all goroutines blocked and the build has not finished: "+o.verdict.detail)
		r.s.mu.Lock()
		for _, n := range r.s.order {
			if t := r.s.threads[n]; t.state == stBlocked && t.at == "wait" && r.s.status[t.arg] == 2 {
				r.violate("C04", "dependent-never-continues", "target "+t.name+" still waits for "+t.arg+", which has finished: "+o.verdict.detail)
			}
			if t := r.s.threads[n]; t.state == stBlocked && t.at == "enter" && r.s.capacity > 0 {
				r.violate("C09", "sleeps-with-free-slot", fmt.Sprintf("target %s sleeps in gate.enter while %d slot(s) are free: %s", t.name, r.s.capacity, o.verdict.detail))
			}
		}
		r.s.mu.Unlock()
		if r.s.capacity == 0 {
			r.violate("C09", "deadlock-no-slot", "all goroutines blocked with no free slot (limit "+strconv.Itoa(r.limit)+"): "+o.verdict.detail)
		}
		fmt.Fprintf(w, "C\t%s\ttrace %s %s\tdeadlock\n", j.Stream, j.Params, o.events)
		fatal = true
	case "diverged":
		r.violate("C05", "does-not-terminate", o.verdict.detail)
		fmt.Fprintf(w, "C\t%s\ttrace %s %s\tdiverged\n", j.Stream, j.Params, "-")
		fatal = true
	case "stuck":
		r.violate("C05", "stuck", o.verdict.detail)
		fmt.Fprintf(w, "C\t%s\ttrace %s %s\tstuck\n", j.Stream, j.Params, o.events)
		fatal = true
	}
	emitViolations(w, r, j, o)
	return fatal
}

func childCtl() int {
	in := bufio.NewScanner(os.Stdin)
	in.Buffer(make([]byte, 1<<20), 1<<26)
	w := bufio.NewWriterSize(os.Stdout, 1<<20)
	defer w.Flush()
	idx := 0
	for in.Scan() {
		var j job
		if err := json.Unmarshal(in.Bytes(), &j); err != nil {
			fmt.Fprintf(w, "E\tbad job: %v\n", err)
			return 2
		}
		g, err := parseParams(j.Params)
		if err != nil {
			fmt.Fprintf(w, "E\t%v\n", err)
			return 2
		}
		wd := 10 * time.Second
		switch j.Strat {
		case "dfs":
			d := &dfsState{maxDepth: 40 + 45*g.n}
			t0 := time.Now()
			n, pruned := 0, 0
			exhausted := false
			for {
				d.depth = 0
				r, o := controlled(g, d.pick, wd)
				n++
				if o.verdict.kind == "pruned" {
					pruned++
					// the pruned execution leaves goroutines parked at yield points; they are garbage for this process
				}
				if d.mismatch != "" {
					r.violate("C05", "nondeterminism", d.mismatch)
				}
				if reportExecution(w, r, j, o) {
					fmt.Fprintf(w, "J\t%d\tfatal\n", idx)
					return 3
				}
				if !d.next() {
					exhausted = true
					break
				}
				if j.Budget > 0 && n >= j.Budget {
					break
				}
				if j.TimeMs > 0 && time.Since(t0) > time.Duration(j.TimeMs)*time.Millisecond {
					break
				}
			}
			fmt.Fprintf(w, "D\t%s\t%d\t%d\t%v\t%d\n", j.Params, n, pruned, exhausted, d.cut)
		default:
			rg := &rng{j.Seed}
			var pick func(*sched, []*thread) *thread
			switch j.Strat {
			case "rand":
				pick = pickRandom(rg)
			case "pct":
				pick = pickPCT(rg, 1+rg.below(3), 30+20*g.n)
			case "pct6":
				pick = pickPCT(rg, 3+rg.below(4), 30+20*g.n)
			case "gate":
				pick = pickGate(rg)
			case "guide":
				var guide []string
				if j.Guide != "" {
					guide = strings.Split(j.Guide, ".")
				}
				pick = pickGuided(guide, rg)
			default:
				fmt.Fprintf(w, "E\tunknown strategy %q\n", j.Strat)
				return 2
			}
			r, o := controlled(g, pick, wd)
			if reportExecution(w, r, j, o) {
				fmt.Fprintf(w, "J\t%d\tfatal\n", idx)
				return 3
			}
		}
		fmt.Fprintf(w, "J\t%d\tok\n", idx)
		w.Flush()
		idx++
	}
	return 0
}

// ---------------------------------------------------------------- child: free-running stress

func childStress(seed uint64, n int, maxNodes int, fixed string) int {
	w := bufio.NewWriterSize(os.Stdout, 1<<20)
	defer w.Flush()
	rg := &rng{seed}
	limit := runtime.NumCPU()
	for i := 0; i < n; i++ {
		g := genGraph(rg, 1+rg.below(maxNodes), 0)
		if fixed != "" {
			fg, err := parseParams(fixed)
			if err != nil {
				fmt.Fprintf(w, "E\t%v\n", err)
				return 2
			}
			fg.cap = 0
			g = fg
		}
		r := newRun(g, nil, limit)
		r.spin = &rng{rg.next()}
		if fixed == "" && i%3 == 1 && limit >= 2 {
			// burst family: a full gate with targets queued behind it whose holders finish together, so that slot
			// releases coincide (a release must wake a waiter even when another release has just done so)
			g = genContention(rg, limit)
			g.cap = 0
			r = newRun(g, nil, limit)
			r.burst = int32(limit)
		}
		if fixed == "" && i%3 == 2 {
			// contention family: many dependents request the same few targets at the same moment, no work in
			// the bodies (the races on the registry and on a target's status need real simultaneity)
			g = genFanIn(rg)
			r = newRun(g, nil, limit)
			if k := len(g.deps[0]); k <= limit {
				r.barrier = int32(k)
			}
		}
		var live int32
		runner.VerifInstall(func(ev runner.VerifEvent) {
			switch ev.Name {
			case "run.init":
				r.rn = ev.Runner
			case "start.spawn":
				atomic.AddInt32(&live, 1)
			case "run.end":
				atomic.AddInt32(&live, -1)
			case "gate.entered", "gate.exited":
				r.sawCapacity(ev.Capacity)
			case "wait.done":
				if ev.Status != 2 && ev.Status != 3 {
					r.violate("C04", "dep-not-final", fmt.Sprintf("wait() on %s returned while its status is %s", ev.Label, statusNames[ev.Status&3]))
				}
			}
		})
		fmt.Fprintf(w, "G\t%s\n", g.params())
		w.Flush()
		done := make(chan error, 1)
		go func() { done <- runner.Run(r, strconv.Itoa(g.root)) }()
		j := job{Stream: "runner.stress", Params: g.params()}
		inp := map[string]any{"params": j.Params, "mode": "stress", "cpus": limit}
		select {
		case result := <-done:
			for l := 0; l < g.n; l++ {
				if atomic.LoadInt32(&r.loads[l]) > 0 && !r.finished[l].Load() {
					r.violate("C05", "run-returned-early", fmt.Sprintf("Run returned while started target %d has not finished", l))
					break
				}
			}
			// Run returns when the requested target has finished; other goroutines may still be active
			deadline := time.Now().Add(20 * time.Second)
			for atomic.LoadInt32(&live) != 0 && time.Now().Before(deadline) {
				time.Sleep(20 * time.Microsecond)
			}
			if atomic.LoadInt32(&live) != 0 {
				r.violate("C05", "hang", fmt.Sprintf("%d target goroutines still active 20s after Run returned", live))
			}
			r.judgeFinal(result)
			fmt.Fprintf(w, "C\trunner.stress.%d\tfinal %s %s\tok\n", limit, j.Params, strings.ReplaceAll(r.summary(result), " ", ","))
		case <-time.After(20 * time.Second):
			r.violate("C05", "hang", fmt.Sprintf("free-running build did not finish within 20s on %d CPUs (deadlock)", limit))
			if limit == 1 {
				r.violate("C09", "hang-limit-one", "build did not complete with a parallelism limit of one")
			}
			for _, v := range r.viols {
				v.Input = inp
				b, _ := json.Marshal(v)
				fmt.Fprintf(w, "V\t%s\n", b)
			}
			return 3
		}
		for _, v := range r.viols {
			v.Input = inp
			b, _ := json.Marshal(v)
			fmt.Fprintf(w, "V\t%s\n", b)
		}
	}
	return 0
}

// ---------------------------------------------------------------- graph generators

func fixedShapes() []*graph {
	mk := func(deps [][]int, unknown, failing []int) *graph {
		g := &graph{n: len(deps), deps: deps, known: make([]bool, len(deps)), body: make([]bool, len(deps))}
		for i := range g.known {
			g.known[i], g.body[i] = true, true
		}
		for _, u := range unknown {
			g.known[u] = false
		}
		for _, f := range failing {
			g.body[f] = false
		}
		return g
	}
	return []*graph{
		mk([][]int{{}}, nil, nil),                                    // single target
		mk([][]int{{}}, []int{0}, nil),                               // unknown root
		mk([][]int{{0}}, nil, nil),                                   // self-dependency
		mk([][]int{{1}, {}}, nil, nil),                               // chain
		mk([][]int{{1, 1}, {}}, nil, nil),                            // the same label twice
		mk([][]int{{1}, {0}}, nil, nil),                              // 2-cycle through the root (runner_test)
		mk([][]int{{1}, {1}}, nil, nil),                              // self-loop below the root
		mk([][]int{{1}, {2}, {1}}, nil, nil),                         // inner cycle (runner_test)
		mk([][]int{{1, 2}, {3}, {3}, {}}, nil, nil),                  // diamond
		mk([][]int{{1, 2}, {3}, {3}, {}}, nil, []int{3}),             // diamond, shared dependency fails
		mk([][]int{{1, 2}, {3}, {3}, {}}, []int{3}, nil),             // diamond, shared dependency unknown
		mk([][]int{{1, 2}, {2}, {1}}, nil, nil),                      // two dependents on one cycle
		mk([][]int{{1}, {2, 3}, {1}, {1}}, nil, nil),                 // overlapping cycles
		mk([][]int{{1, 2}, {2, 0}, {}}, nil, nil),                    // cycle back to the root plus a shared leaf
		mk([][]int{{1, 2, 3}, {}, {}, {}}, nil, []int{2}),            // fan-out, one failing
		mk([][]int{{1, 2}, {3, 4}, {3, 4}, {5}, {5}, {}}, nil, nil),  // shared subgraph
		mk([][]int{{1, 2}, {2}, {3}, {2}}, nil, nil),                 // bystanders of a cycle
		mk([][]int{{1, 2}, {1}, {1}}, nil, nil),                      // a late dependent of a self-dependent target
		mk([][]int{{1, 3}, {2}, {1}, {1}}, nil, nil),                 // a late dependent of a member of a 2-cycle
	}
}

// random graph: mixes DAG edges (towards higher labels) with back edges and self-loops
func genGraph(rg *rng, n, capacity int) *graph {
	g := &graph{n: n, cap: capacity, root: 0, deps: make([][]int, n), known: make([]bool, n), body: make([]bool, n)}
	back := rg.below(3) == 0 // allow cycles in a third of the graphs
	dens := 1 + rg.below(3)
	for i := 0; i < n; i++ {
		g.known[i] = rg.below(12) != 0
		g.body[i] = rg.below(8) != 0
		k := rg.below(dens + 2)
		for e := 0; e < k; e++ {
			var d int
			switch {
			case back && rg.below(5) == 0:
				d = rg.below(n) // any label, including itself and the root
			case i+1 < n:
				d = i + 1 + rg.below(n-i-1)
			default:
				continue
			}
			g.deps[i] = append(g.deps[i], d)
		}
	}
	g.known[0] = rg.below(40) != 0
	return g
}

// contention: a root with 2*limit+2 .. 3*limit+3 leaves (some of them short chains), so that the gate is full with
// several targets queued behind it
func genContention(rg *rng, limit int) *graph {
	k := 2*limit + 2 + rg.below(limit+2)
	n := 1 + k
	chains := rg.below(3)
	n += chains
	g := &graph{n: n, cap: limit, root: 0, deps: make([][]int, n), known: make([]bool, n), body: make([]bool, n)}
	for i := range g.known {
		g.known[i], g.body[i] = true, true
	}
	for m := 1; m <= k; m++ {
		g.deps[0] = append(g.deps[0], m)
	}
	for c := 0; c < chains; c++ {
		g.deps[1+rg.below(k)] = []int{1 + k + c}
	}
	return g
}

// fan-in: the root requests k dependents which all request the same j targets (and sometimes each other)
func genFanIn(rg *rng) *graph {
	k, j := 2+rg.below(15), 1+rg.below(4)
	n := 1 + k + j
	g := &graph{n: n, root: 0, deps: make([][]int, n), known: make([]bool, n), body: make([]bool, n)}
	for i := range g.known {
		g.known[i], g.body[i] = true, true
	}
	for m := 1; m <= k; m++ {
		g.deps[0] = append(g.deps[0], m)
		for x := 0; x < j; x++ {
			g.deps[m] = append(g.deps[m], 1+k+(x+m)%j)
		}
		if rg.below(8) == 0 {
			g.deps[m] = append(g.deps[m], 1+rg.below(k))
		}
	}
	if rg.below(4) == 0 {
		g.body[1+k+rg.below(j)] = false
	}
	return g
}

// ---------------------------------------------------------------- parent

type parent struct {
	exe   string
	out   *bufio.Writer
	stats map[string]int
	hist  map[string]int
}

func (p *parent) passLine(line string) {
	switch {
	case strings.HasPrefix(line, "C\t"):
		p.stats["executions"]++
		f := strings.SplitN(line, "\t", 4)
		p.hist["stream:"+f[1]]++
		fmt.Fprintln(p.out, line)
	case strings.HasPrefix(line, "V\t"):
		p.stats["violations"]++
		fmt.Fprintln(p.out, line)
	case strings.HasPrefix(line, "D\t"):
		f := strings.Split(line, "\t")
		p.stats["dfs_graphs"]++
		n, _ := strconv.Atoi(f[2])
		pr, _ := strconv.Atoi(f[3])
		p.stats["dfs_executions"] += n
		p.stats["dfs_pruned"] += pr
		if f[4] == "true" {
			p.stats["dfs_graphs_exhausted"]++
		}
		if len(f) > 5 {
			c, _ := strconv.Atoi(f[5])
			p.stats["dfs_cut_at_depth_bound"] += c
		}
	case strings.HasPrefix(line, "E\t"):
		p.stats["harness_errors"]++
		fmt.Fprintln(os.Stderr, line)
	}
}

// run controlled jobs in child processes, `par` at a time; a child that dies (deadlock verdict, watchdog) is
// restarted after the job it died on
func (p *parent) runJobs(jobs []job, perChild int, limit time.Duration, par int) {
	deadline := time.Now().Add(limit)
	var mu sync.Mutex // guards jobs, p.stats, p.out
	next := func() []job {
		mu.Lock()
		defer mu.Unlock()
		if len(jobs) == 0 {
			return nil
		}
		if time.Now().After(deadline) {
			p.stats["jobs_not_run_time_budget"] += len(jobs)
			jobs = nil
			return nil
		}
		n := perChild
		if n > len(jobs) {
			n = len(jobs)
		}
		b := jobs[:n]
		jobs = jobs[n:]
		return b
	}
	var wg sync.WaitGroup
	for w := 0; w < par; w++ {
		wg.Add(1)
		go func() {
			defer wg.Done()
			for batch := next(); batch != nil; batch = next() {
				for len(batch) > 0 {
					done := p.runChild(batch, deadline, &mu)
					batch = batch[done:]
					if time.Now().After(deadline) && len(batch) > 0 {
						mu.Lock()
						p.stats["jobs_not_run_time_budget"] += len(batch)
						mu.Unlock()
						break
					}
				}
			}
		}()
	}
	wg.Wait()
}

// runChild runs one child over batch and returns how many jobs it got through (at least one)
func (p *parent) runChild(batch []job, deadline time.Time, mu *sync.Mutex) int {
	cmd := exec.Command(p.exe, "-child", "ctl")
	var in strings.Builder
	for _, j := range batch {
		b, _ := json.Marshal(j)
		in.Write(b)
		in.WriteByte('\n')
	}
	cmd.Stdin = strings.NewReader(in.String())
	var errb tailBuffer
	cmd.Stderr = &errb
	stdout, _ := cmd.StdoutPipe()
	if err := cmd.Start(); err != nil {
		fmt.Fprintln(os.Stderr, "cannot start child:", err)
		mu.Lock()
		p.stats["harness_errors"]++
		mu.Unlock()
		return len(batch)
	}
	done := 0
	sc := bufio.NewScanner(stdout)
	sc.Buffer(make([]byte, 1<<20), 1<<26)
	timer := time.AfterFunc(time.Until(deadline)+30*time.Second, func() { cmd.Process.Kill() })
	for sc.Scan() {
		line := sc.Text()
		if strings.HasPrefix(line, "J\t") {
			done++
			continue
		}
		mu.Lock()
		p.passLine(line)
		mu.Unlock()
	}
	werr := cmd.Wait()
	killed := !timer.Stop()
	if ee, ok := werr.(*exec.ExitError); ok && !killed && ee.ExitCode() != 3 && done < len(batch) {
		// the child died inside a job (a Go fatal error such as a stack overflow cannot be recovered from)
		j := batch[done]
		b, _ := json.Marshal(violation{Property: "C05", Kind: "crash",
			Detail: fmt.Sprintf("the process died while running this build under the controlled scheduler: %v: %s", werr, errb.String()),
			Input:  map[string]any{"params": j.Params, "mode": "job", "strat": j.Strat, "seed": strconv.FormatUint(j.Seed, 10), "guide": j.Guide}})
		mu.Lock()
		p.passLine("V\t" + string(b))
		mu.Unlock()
	}
	mu.Lock()
	p.stats["children"]++
	if done == 0 {
		p.stats["jobs_lost"]++
	}
	mu.Unlock()
	if done == 0 {
		done = 1 // never loop on a job that kills the child before reporting
	}
	if done > len(batch) {
		done = len(batch)
	}
	return done
}

func (p *parent) runStress(seed uint64, cpus string, n, maxNodes int, limit time.Duration, fixed string) {
	args := []string{"-child", "stress", "-seed", strconv.FormatUint(seed, 10), "-n", strconv.Itoa(n), "-maxnodes", strconv.Itoa(maxNodes)}
	if fixed != "" {
		args = append(args, "-params", fixed)
	}
	var cmd *exec.Cmd
	if _, err := exec.LookPath("taskset"); err == nil {
		cmd = exec.Command("taskset", append([]string{"-c", cpus, p.exe}, args...)...)
	} else {
		p.stats["taskset_missing"] = 1
		cmd = exec.Command(p.exe, args...)
	}
	var errb tailBuffer
	cmd.Stderr = &errb
	stdout, _ := cmd.StdoutPipe()
	if err := cmd.Start(); err != nil {
		p.stats["harness_errors"]++
		return
	}
	timer := time.AfterFunc(limit, func() { cmd.Process.Kill() })
	sc := bufio.NewScanner(stdout)
	sc.Buffer(make([]byte, 1<<20), 1<<26)
	last, sawV := "", false
	for sc.Scan() {
		line := sc.Text()
		if strings.HasPrefix(line, "G\t") {
			last = line[2:]
			continue
		}
		if strings.HasPrefix(line, "V\t") {
			sawV = true
		}
		p.passLine(line)
	}
	err := cmd.Wait()
	ncpu := 1
	if i := strings.IndexByte(cpus, '-'); i >= 0 {
		hi, _ := strconv.Atoi(cpus[i+1:])
		ncpu = hi + 1
	}
	emitV := func(kind, detail string) {
		b, _ := json.Marshal(violation{Property: "C05", Kind: kind, Detail: detail,
			Input: map[string]any{"params": last, "mode": "stress", "cpus": ncpu}})
		p.passLine("V\t" + string(b))
	}
	if !timer.Stop() {
		p.stats["stress_children_killed_by_time_budget"]++
		if last != "" && !sawV {
			emitV("hang", fmt.Sprintf("the free-running child (cpus %s) was still inside this build when its time budget of %v ran out", cpus, limit))
		}
	} else if err != nil {
		p.stats["stress_children_failed"]++
		if ee, ok := err.(*exec.ExitError); ok && ee.ExitCode() != 3 && last != "" {
			emitV("crash", fmt.Sprintf("the free-running child (cpus %s) died during this build: %v: %s", cpus, err, errb.String()))
		}
	}
	os.Stderr.Write([]byte(errb.head()))
}

// tailBuffer keeps the first 2 KiB and the last 2 KiB written to it (a Go fatal error prints a very long stack)
type tailBuffer struct {
	mu   sync.Mutex
	h, t []byte
}

func (b *tailBuffer) Write(p []byte) (int, error) {
	b.mu.Lock()
	defer b.mu.Unlock()
	if len(b.h) < 2048 {
		k := 2048 - len(b.h)
		if k > len(p) {
			k = len(p)
		}
		b.h = append(b.h, p[:k]...)
	}
	b.t = append(b.t, p...)
	if len(b.t) > 2048 {
		b.t = b.t[len(b.t)-2048:]
	}
	return len(p), nil
}
func (b *tailBuffer) head() string { b.mu.Lock(); defer b.mu.Unlock(); return string(b.h) }
func (b *tailBuffer) String() string {
	b.mu.Lock()
	defer b.mu.Unlock()
	h := string(b.h)
	if i := strings.Index(h, "\n\n"); i > 0 {
		h = h[:i]
	}
	if len(h) > 400 {
		h = h[:400]
	}
	return strings.ReplaceAll(h, "\n", " | ")
}

func (p *parent) runProject(seed uint64, n, maxNodes int, limit time.Duration, fixed string, cpus string) {
	args := []string{"-child", "project", "-seed", strconv.FormatUint(seed, 10), "-n", strconv.Itoa(n), "-maxnodes", strconv.Itoa(maxNodes)}
	if fixed != "" {
		args = append(args, "-params", fixed)
	}
	cmd := exec.Command(p.exe, args...)
	if cpus != "" {
		// dry runs of wide fan-outs, pinned so that "wider than the CPU count" stays small
		args = append(args, "-drywide")
		if _, err := exec.LookPath("taskset"); err == nil {
			cmd = exec.Command("taskset", append([]string{"-c", cpus, p.exe}, args...)...)
		} else {
			cmd = exec.Command(p.exe, args...)
		}
	}
	cmd.Stderr = os.Stderr
	stdout, _ := cmd.StdoutPipe()
	if err := cmd.Start(); err != nil {
		p.stats["harness_errors"]++
		return
	}
	timer := time.AfterFunc(limit, func() { cmd.Process.Kill() })
	sc := bufio.NewScanner(stdout)
	sc.Buffer(make([]byte, 1<<20), 1<<26)
	for sc.Scan() {
		p.passLine(sc.Text())
	}
	err := cmd.Wait()
	if !timer.Stop() {
		p.stats["project_child_killed_by_time_budget"]++
	} else if err != nil {
		p.stats["project_child_failed"]++
	}
}

func main() {
	seed := flag.Uint64("seed", 1, "")
	tier := flag.String("tier", "quick", "")
	child := flag.String("child", "", "")
	n := flag.Int("n", 100, "")
	maxNodes := flag.Int("maxnodes", 12, "")
	schedFile := flag.String("sched", "", "model-supplied schedules: lines `<params> <t1.t2...>`")
	corpusFile := flag.String("corpus", "", "past failures (same format), run first")
	replay := flag.String("replay", "", "json: {params, mode, schedule|cpus}")
	fixedParams := flag.String("params", "", "stress child: run this graph every time")
	dryWide := flag.Bool("drywide", false, "project child: only dry runs of fan-outs wider than the CPU count")
	dumpJobs := flag.Bool("dumpjobs", false, "print the controlled jobs of this tier and seed instead of running them")
	flag.Parse()

	switch *child {
	case "ctl":
		os.Exit(childCtl())
	case "stress":
		os.Exit(childStress(*seed, *n, *maxNodes, *fixedParams))
	case "project":
		os.Exit(childProject(*seed, *n, *maxNodes, *fixedParams, *dryWide))
	case "":
	default:
		fmt.Fprintln(os.Stderr, "unknown -child mode", *child)
		os.Exit(2)
	}
	exe, _ := os.Executable()
	out := bufio.NewWriterSize(os.Stdout, 1<<20)
	defer out.Flush()
	p := &parent{exe: exe, out: out, stats: map[string]int{}, hist: map[string]int{}}

	if *replay != "" {
		var in struct {
			Params   string `json:"params"`
			Mode     string `json:"mode"`
			Schedule string `json:"schedule"`
			Cpus     int    `json:"cpus"`
			Strat    string `json:"strat"`
			Seed     string `json:"seed"`
			Guide    string `json:"guide"`
		}
		if err := json.Unmarshal([]byte(*replay), &in); err != nil {
			fmt.Fprintln(os.Stderr, err)
			os.Exit(2)
		}
		if in.Mode == "job" {
			sd, _ := strconv.ParseUint(in.Seed, 10, 64)
			p.runJobs([]job{{Stream: "runner.replay", Params: in.Params, Strat: in.Strat, Seed: sd, Guide: in.Guide}}, 1, time.Minute, 1)
		} else if in.Mode == "project-dry" {
			cpus := "0"
			if in.Cpus > 1 {
				cpus = "0-" + strconv.Itoa(in.Cpus-1)
			}
			p.runProject(*seed, 50, 1, 2*time.Minute, "", cpus)
		} else if in.Mode == "project" {
			p.runProject(*seed, 200, 1, 2*time.Minute, in.Params, "")
		} else if in.Mode == "schedule" {
			p.runJobs([]job{{Stream: "runner.replay", Params: in.Params, Strat: "guide", Guide: in.Schedule}}, 1, time.Minute, 1)
		} else {
			// a free-running failure is replayed by repeating the same graph on the same number of CPUs
			cpus := "0"
			if in.Cpus > 1 {
				cpus = "0-" + strconv.Itoa(in.Cpus-1)
			}
			p.runStress(*seed, cpus, 3000, 1, 60*time.Second, in.Params)
		}
		return
	}

	quick := *tier != "thorough"
	par := runtime.NumCPU() / 2
	if par < 1 {
		par = 1
	}
	if par > 8 {
		par = 8
	}
	rg := &rng{*seed}
	start := time.Now()
	var jobs []job
	sizes := map[int]int{}

	// 0. the corpus of past failures, 1. model-supplied schedules (shortest traces to states of small graphs)
	readScheds := func(path, stream string) int {
		n := 0
		if path == "" {
			return 0
		}
		f, err := os.Open(path)
		if err != nil {
			return 0
		}
		defer f.Close()
		sc := bufio.NewScanner(f)
		sc.Buffer(make([]byte, 1<<20), 1<<26)
		for sc.Scan() {
			fs := strings.Fields(sc.Text())
			if len(fs) == 2 {
				jobs = append(jobs, job{Stream: stream, Params: fs[0], Strat: "guide", Guide: fs[1], Seed: rg.next()})
				n++
			}
		}
		return n
	}
	p.stats["corpus_cases"] = readScheds(*corpusFile, "runner.corpus")
	p.stats["model_schedules"] = readScheds(*schedFile, "runner.model")

	// 2. fixed shapes x caps x random and PCT schedules
	reps := 12
	if !quick {
		reps = 80
	}
	for _, g0 := range fixedShapes() {
		for _, c := range []int{1, 2, 3} {
			g := *g0
			g.cap = c
			for k := 0; k < reps; k++ {
				st := "rand"
				if k%2 == 1 {
					st = "pct"
				}
				jobs = append(jobs, job{Stream: "runner." + st, Params: g.params(), Strat: st, Seed: rg.next()})
			}
			sizes[g.n] += reps
		}
	}
	// 3. random graphs x random and PCT schedules
	ng := 6000
	if !quick {
		ng = 40000
	}
	for i := 0; i < ng; i++ {
		g := genGraph(rg, 1+rg.below(6), 1+rg.below(3))
		for k := 0; k < 2; k++ {
			st := "rand"
			if k == 1 {
				st = "pct"
			}
			jobs = append(jobs, job{Stream: "runner." + st, Params: g.params(), Strat: st, Seed: rg.next()})
		}
		sizes[g.n] += 2
	}
	// 3b. gate contention: fan-outs and chains that release slots in pairs, limits 2 and 3, directed picker + deep PCT
	gn := 120
	if !quick {
		gn = 3000
	}
	for i := 0; i < gn; i++ {
		c := 2 + rg.below(2)
		g := genContention(rg, c)
		st := "gate"
		if i%4 == 3 {
			st = "pct6"
		}
		jobs = append(jobs, job{Stream: "runner." + st, Params: g.params(), Strat: st, Seed: rg.next()})
		sizes[g.n]++
	}
	if *dumpJobs {
		for _, j := range jobs {
			b, _ := json.Marshal(j)
			fmt.Fprintln(out, string(b))
		}
		return
	}
	ctlBudget := 25 * time.Second
	if !quick {
		ctlBudget = 5 * time.Minute
	}
	p.runJobs(jobs, 250, ctlBudget, par)
	p.stats["controlled_jobs"] = len(jobs)

	// 4. thorough: every interleaving (sleep sets, shared-state granularity) of graphs with up to 3 nodes
	if !quick {
		var dj []job
		for _, g0 := range fixedShapes() {
			if g0.n > 3 {
				continue
			}
			for _, c := range []int{1, 2} {
				g := *g0
				g.cap = c
				dj = append(dj, job{Stream: "runner.dfs", Params: g.params(), Strat: "dfs", Budget: 200000, TimeMs: 200000})
			}
		}
		p.runJobs(dj, 1, 4*time.Minute, par)
	} else {
		var dj []job
		for _, g0 := range fixedShapes()[:7] {
			for _, c := range []int{1, 2} {
				g := *g0
				g.cap = c
				dj = append(dj, job{Stream: "runner.dfs", Params: g.params(), Strat: "dfs", Budget: 4000, TimeMs: 12000})
			}
		}
		p.runJobs(dj, 1, 14*time.Second, par)
	}

	// 5. free-running stress with the real runtime.NumCPU() limit
	sn, smax := 4000, 14
	sl := 45 * time.Second
	if !quick {
		sn, smax, sl = 40000, 40, 150*time.Second
	}
	for _, cpus := range []string{"0", "0-1", "0-2", "0-15"} {
		p.runStress(rg.next(), cpus, sn, smax, sl, "")
	}

	// 6. the runner under its real client (dawn.Project / runTarget.Evaluate)
	pn := 250
	if !quick {
		pn = 6000
	}
	p.runProject(rg.next(), pn, 9, 60*time.Second+time.Duration(pn)*20*time.Millisecond, "", "")
	dn := 25
	if !quick {
		dn = 400
	}
	for _, cpus := range []string{"0", "0-1", "0-2"} {
		p.runProject(rg.next(), dn, 1, 60*time.Second+time.Duration(dn)*50*time.Millisecond, "", cpus)
	}

	p.stats["wall_ms"] = int(time.Since(start).Milliseconds())
	st := map[string]any{}
	for k, v := range p.stats {
		st[k] = v
	}
	hs := map[string]int{}
	for k, v := range p.hist {
		hs[k] = v
	}
	for k, v := range sizes {
		hs["nodes:"+strconv.Itoa(k)] = v
	}
	st["histogram"] = hs
	keys := make([]string, 0, len(st))
	for k := range st {
		keys = append(keys, k)
	}
	sort.Strings(keys)
	b, _ := json.Marshal(st)
	fmt.Fprintf(out, "S\t%s\n", b)
}

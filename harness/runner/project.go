// The runner driven by its real client: dawn.Project (project.go: Run, LoadTarget) and runTarget.Evaluate
// (target.go). Each case is a generated graph rendered as a BUILD.dawn in a scratch directory, loaded afresh and
// built once; the properties' predicates are judged on the delivered events (free running, no scheduler).
package main

import (
	"bufio"
	"encoding/json"
	"errors"
	"fmt"
	"os"
	"path/filepath"
	"strconv"
	"strings"
	"runtime"
	"sync"
	"sync/atomic"
	"time"

	"github.com/pgavlin/dawn"
	"github.com/pgavlin/dawn/diff"
	"github.com/pgavlin/dawn/label"
	"github.com/pgavlin/dawn/runner"
)

type pevent struct {
	kind  string // evaluating | succeeded | uptodate | failed | print | rundone
	label string
	err   error
}

type pevents struct {
	m      sync.Mutex
	evs    []pevent
	inside int32 // targets inside Evaluate (between TargetEvaluating and its return), i.e. holding a slot
	maxIn  int32
}

func (e *pevents) add(kind string, l *label.Label, err error) {
	e.m.Lock()
	defer e.m.Unlock()
	n := ""
	if l != nil {
		n = l.Name
	}
	e.evs = append(e.evs, pevent{kind, n, err})
}

func (e *pevents) Print(l *label.Label, line string) {
	if strings.HasPrefix(line, "ran ") {
		e.add("print", l, nil)
	}
}
func (e *pevents) RequirementLoading(*label.Label, string)            {}
func (e *pevents) RequirementLoaded(*label.Label, string)             {}
func (e *pevents) RequirementLoadFailed(*label.Label, string, error)  {}
func (e *pevents) ModuleLoading(*label.Label)                         {}
func (e *pevents) ModuleLoaded(*label.Label)                          {}
func (e *pevents) ModuleLoadFailed(*label.Label, error)               {}
func (e *pevents) LoadDone(error)                                     {}
func (e *pevents) TargetUpToDate(l *label.Label)                      { e.add("uptodate", l, nil) }
func (e *pevents) TargetEvaluating(l *label.Label, _ string, _ diff.ValueDiff) {
	// called from inside runTarget.Evaluate, i.e. while the target holds a slot (also in a dry run, which still
	// hashes sources and fingerprints functions): stay a moment so that targets that are allowed in overlap
	n := atomic.AddInt32(&e.inside, 1)
	for {
		m := atomic.LoadInt32(&e.maxIn)
		if n <= m || atomic.CompareAndSwapInt32(&e.maxIn, m, n) {
			break
		}
	}
	time.Sleep(300 * time.Microsecond)
	atomic.AddInt32(&e.inside, -1)
	e.add("evaluating", l, nil)
}
func (e *pevents) TargetFailed(l *label.Label, err error)     { e.add("failed", l, err) }
func (e *pevents) TargetSucceeded(l *label.Label, _ bool)     { e.add("succeeded", l, nil) }
func (e *pevents) RunDone(err error)                          { e.add("rundone", nil, err) }
func (e *pevents) FileChanged(*label.Label)                   {}

// equivalent spellings of the label of target l of the root package: relative, absolute, absolute with redundant
// slashes (label.Parse accepts all of them and normalises them to //:t<l>)
func spell(rg *rng, l int) string {
	return []string{":t%d", "//:t%d", "///:t%d", "////:t%d"}[rg.below(4)]
}

func renderBuild(g *graph, rg *rng) string {
	var b strings.Builder
	for l := g.n - 1; l >= 0; l-- { // highest label first, so that most dependencies are already defined as objects
		if !g.known[l] {
			continue // an unknown target is simply not defined
		}
		var ds []string
		for _, d := range g.deps[l] {
			if rg.below(5) == 0 && g.known[d] && d > l {
				ds = append(ds, fmt.Sprintf("t%d", d)) // a target object (defined earlier in the file)
			} else {
				ds = append(ds, "\""+fmt.Sprintf(spell(rg, d), d)+"\"")
			}
		}
		fmt.Fprintf(&b, "@target(deps=[%s])\ndef t%d():\n    print(\"ran t%d\")\n", strings.Join(ds, ", "), l, l)
		if !g.body[l] {
			fmt.Fprintf(&b, "    fail(\"body of t%d fails\")\n", l)
		}
		b.WriteString("\n")
	}
	return b.String()
}

// expected failure of every label of an acyclic reachable graph
func (g *graph) expectFail() []bool {
	memo := make([]int, g.n) // 0 unknown 1 ok 2 fail
	var f func(int) bool
	f = func(l int) bool {
		if memo[l] != 0 {
			return memo[l] == 2
		}
		memo[l] = 1 // (acyclic: never revisited on the stack)
		fail := !g.known[l]
		if g.known[l] {
			for _, d := range g.deps[l] {
				if f(d) {
					fail = true
				}
			}
			if !g.body[l] {
				fail = true
			}
		}
		if fail {
			memo[l] = 2
		}
		return fail
	}
	out := make([]bool, g.n)
	for l := 0; l < g.n; l++ {
		out[l] = f(l)
	}
	return out
}

func childProject(seed uint64, n, maxNodes int, fixed string, dryWide bool) int {
	w := bufio.NewWriterSize(os.Stdout, 1<<20)
	defer w.Flush()
	rg := &rng{seed}
	base, err := os.MkdirTemp("", "verif-runner-project-")
	if err != nil {
		fmt.Fprintf(w, "E\t%v\n", err)
		return 2
	}
	defer os.RemoveAll(base)
	os.Setenv("HOME", filepath.Join(base, "home"))
	os.MkdirAll(filepath.Join(base, "home"), 0o755)
	limit := 0
	runner.VerifInstall(nil)
	shapes := fixedShapes()
	for i := 0; i < n; i++ {
		var g *graph
		if i < len(shapes) {
			g = shapes[i]
		} else {
			g = genGraph(rg, 1+rg.below(maxNodes), 0)
		}
		dry := false
		if dryWide || (fixed == "" && i%7 == 6) {
			// a dry run of a fan-out wider than the CPU count: nothing executes, but every target is still evaluated
			dry = true
			k := 3*runtime.NumCPU() + 2 + rg.below(4)
			g = &graph{n: k + 1, root: 0, deps: make([][]int, k+1), known: make([]bool, k+1), body: make([]bool, k+1)}
			for l := 0; l <= k; l++ {
				g.known[l], g.body[l] = true, true
				if l > 0 {
					g.deps[0] = append(g.deps[0], l)
				}
			}
		}
		if fixed != "" {
			fg, err := parseParams(fixed)
			if err != nil {
				fmt.Fprintf(w, "E\t%v\n", err)
				return 2
			}
			g = fg
		}
		if !g.known[g.root] {
			continue // Run on a label that does not exist is the loader's business
		}
		root := filepath.Join(base, "p"+strconv.Itoa(i))
		os.MkdirAll(root, 0o755)
		os.WriteFile(filepath.Join(root, ".dawnconfig"), nil, 0o644)
		os.WriteFile(filepath.Join(root, "BUILD.dawn"), []byte(renderBuild(g, rg)), 0o644)
		evs := &pevents{}
		proj, err := dawn.Load(root, &dawn.LoadOptions{Events: evs})
		if err != nil {
			fmt.Fprintf(w, "E\tload %s: %v\n", g.params(), err)
			continue
		}
		lab, _ := label.Parse("//:t" + strconv.Itoa(g.root))
		done := make(chan error, 1)
		go func() { done <- proj.Run(lab, &dawn.RunOptions{Always: true, DryRun: dry}) }()
		var viols []violation
		add := func(prop, kind, detail string) { viols = append(viols, violation{Property: prop, Kind: kind, Detail: detail}) }
		var result error
		select {
		case result = <-done:
		case <-time.After(20 * time.Second):
			add("C05", "hang", "Project.Run did not return within 20s")
			emit(w, viols, g, limit)
			return 3
		}
		time.Sleep(200 * time.Microsecond) // events delivered after RunDone would show as late events below
		evs.m.Lock()
		list := append([]pevent{}, evs.evs...)
		evs.m.Unlock()
		name := func(l int) string { return "t" + strconv.Itoa(l) }
		idx := map[string]int{}
		for l := 0; l < g.n; l++ {
			idx[name(l)] = l
		}
		evalAt := make([]int, g.n)
		endAt := make([]int, g.n)
		okEnd := make([]bool, g.n)
		nEval := make([]int, g.n)
		nEnd := make([]int, g.n)
		nPrint := make([]int, g.n)
		for l := range evalAt {
			evalAt[l], endAt[l] = -1, -1
		}
		cycErr := false
		runDoneAt := -1
		for k, e := range list {
			if e.kind == "rundone" {
				runDoneAt = k
				continue
			}
			l, ok := idx[e.label]
			if !ok {
				continue
			}
			if runDoneAt >= 0 {
				add("C05", "run-returned-early", fmt.Sprintf("event %s of %s delivered after RunDone", e.kind, e.label))
			}
			switch e.kind {
			case "evaluating":
				nEval[l]++
				evalAt[l] = k
			case "print":
				nPrint[l]++
			case "succeeded", "uptodate":
				nEnd[l]++
				endAt[l], okEnd[l] = k, true
			case "failed":
				nEnd[l]++
				endAt[l] = k
				var ce runner.CyclicDependencyError
				if errors.As(e.err, &ce) {
					cycErr = true
				}
			}
		}
		for l := 0; l < g.n; l++ {
			if nEval[l] > 1 || nPrint[l] > 1 {
				add("C04", "evaluated-twice", fmt.Sprintf("target %s: %d TargetEvaluating events, body ran %d times", name(l), nEval[l], nPrint[l]))
			}
			if nEnd[l] > 1 {
				add("C04", "finished-twice", fmt.Sprintf("target %s: %d completion events", name(l), nEnd[l]))
			}
			if evalAt[l] >= 0 {
				for _, d := range g.deps[l] {
					if !(okEnd[d] && endAt[d] < evalAt[l]) {
						add("C04", "dep-not-finished", fmt.Sprintf("target %s started executing before its dependency %s had succeeded", name(l), name(d)))
					}
				}
			}
		}
		if m := int(atomic.LoadInt32(&evs.maxIn)); m > runtime.NumCPU() {
			add("C09", "occupancy", fmt.Sprintf("%d targets inside Evaluate at once on %d CPUs (dry run: %v)", m, runtime.NumCPU(), dry))
		}
		cyclic := g.cyclicReachable()
		if dry {
			if result != nil {
				add("C04", "result", fmt.Sprintf("a dry run of a fan-out failed: %v", result))
			}
			fmt.Fprintf(w, "C\trunner.project.dry\tgraph %s\tok\n", g.params())
			emitMode(w, viols, g, "project-dry")
			continue
		}
		if cyclic {
			if result == nil {
				add("C05", "cycle-not-failed", "the reachable graph has a cycle but Project.Run succeeded")
			}
			if !cycErr {
				add("C05", "cycle-not-reported", "the reachable graph has a cycle but no target was failed with a cyclic-dependency error")
			}
		} else {
			if cycErr {
				add("C05", "false-cycle", "acyclic graph but a cyclic-dependency error was reported")
			}
			exp := g.expectFail()
			if (result != nil) != exp[g.root] {
				add("C04", "result", fmt.Sprintf("Project.Run returned %v, the requested target should fail=%v", result, exp[g.root]))
			}
			reach := g.reachable()
			for l := 0; l < g.n; l++ {
				if !reach[l] || !g.known[l] {
					continue
				}
				ran := nPrint[l] == 1
				depsOK := true
				for _, d := range g.deps[l] {
					if exp[d] {
						depsOK = false
					}
				}
				if ran != depsOK {
					add("C04", "ran-vs-dependencies", fmt.Sprintf("target %s ran=%v although all its dependencies succeeded=%v", name(l), ran, depsOK))
				}
			}
		}
		fmt.Fprintf(w, "C\trunner.project\tgraph %s\tok\n", g.params())
		emit(w, viols, g, limit)
	}
	return 0
}

func emit(w *bufio.Writer, viols []violation, g *graph, limit int) { emitMode(w, viols, g, "project") }

func emitMode(w *bufio.Writer, viols []violation, g *graph, mode string) {
	for _, v := range viols {
		v.Input = map[string]any{"params": g.params(), "mode": mode, "cpus": runtime.NumCPU()}
		b, _ := json.Marshal(v)
		fmt.Fprintf(w, "V\t%s\n", b)
	}
}

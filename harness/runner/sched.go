// Controlled scheduler for the hook-instrumented runner (DESIGN.md §2.3).
//
// Every goroutine of a run (the caller of Run = thread "m", and one per started target = thread "<label>")
// stops at a *yield point* before each shared-memory operation; the controller waits until no goroutine is
// moving and resumes exactly one. Yield points sit outside critical sections. A goroutine that is about to
// block in cond.Wait announces it inside the wait loop and does not stop; a waker announces whom it wakes
// before Signal/Broadcast while it still holds the mutex, so a woken goroutine is accounted for before it moves.
package main

import (
	"bytes"
	"fmt"
	"runtime"
	"sort"
	"strconv"
	"strings"
	"sync"
	"time"

	"github.com/pgavlin/dawn/runner"
)

const (
	wakeGrace   = 150 * time.Millisecond
	confirmLost = 1500 * time.Millisecond
)

const (
	stRunning = iota
	stYielded
	stBlocked
	stDone
)

type thread struct {
	name   string
	state  int
	at     string // yield point
	arg    string // label argument of the pending operation
	resume chan struct{}
	prio   int
	// pendingWake: marked running because a waker announced Signal/Broadcast/Done for it, not yet heard from
	pendingWake bool
	lostWake    bool // the announced wake-up did not arrive within the grace period
}

type sched struct {
	mu      sync.Mutex
	byGid   map[int64]*thread
	threads map[string]*thread
	order   []string
	running int
	quiet   chan struct{}
	gateQ   []*thread
	statusQ map[string][]*thread
	events  []string
	// what the controller knows about the shared state (from the log), used to tell enabled from disabled
	capacity int
	status   map[string]int // 0 idle 1 running 2 final
	live     int            // target goroutines spawned and not yet past running.Done()
	wgWait   *thread        // the main thread, when it is blocked in running.Wait()
	pick     func(s *sched, ready []*thread) *thread
	lost     []string // announced wake-ups that did not arrive within the grace period
	choices  []string // names chosen, in order (the replayable schedule)
	problems []string
	// unlockedExit: a gate.exit has been seen to run WITHOUT the gate's mutex (TryLock succeeded inside it). Only then
	// is the instant between a waiter's capacity test and its cond.Wait — inside the waiter's critical section — a
	// point at which another thread's exit can happen, and only then does the controller stop a waiter there.
	unlockedExit bool
	free         bool // released: yields no longer stop (used to let the goroutines of an abandoned execution finish)
}

func newSched(capacity int) *sched {
	return &sched{byGid: map[int64]*thread{}, threads: map[string]*thread{}, quiet: make(chan struct{}, 1),
		statusQ: map[string][]*thread{}, status: map[string]int{}, capacity: capacity}
}

func gid() int64 {
	var buf [64]byte
	n := runtime.Stack(buf[:], false)
	f := bytes.Fields(buf[:n])
	id, _ := strconv.ParseInt(string(f[1]), 10, 64)
	return id
}

func (s *sched) me() *thread { return s.byGid[gid()] }

func (s *sched) log(t *thread, ev string) { s.events = append(s.events, t.name+"/"+ev) }

func (s *sched) notify() {
	if s.running == 0 {
		select {
		case s.quiet <- struct{}{}:
		default:
		}
	}
}

// register the calling goroutine as thread name (main) — before it reaches any point
func (s *sched) adopt(name string) *thread {
	s.mu.Lock()
	defer s.mu.Unlock()
	t := &thread{name: name, state: stRunning, resume: make(chan struct{})}
	s.threads[name] = t
	s.order = append(s.order, name)
	s.byGid[gid()] = t
	s.running++
	return t
}

func (s *sched) yield(at, arg string) {
	s.mu.Lock()
	t := s.me()
	if t == nil {
		s.problems = append(s.problems, "yield from unknown goroutine at "+at)
		s.mu.Unlock()
		return
	}
	if s.free {
		s.mu.Unlock()
		return
	}
	t.state, t.at, t.arg = stYielded, at, arg
	s.running--
	s.notify()
	s.mu.Unlock()
	<-t.resume
}

// release lets every goroutine of this execution run freely to its end and waits for that (bounded)
func (s *sched) release() {
	s.mu.Lock()
	s.free = true
	var parked []*thread
	for _, n := range s.order {
		if t := s.threads[n]; t.state == stYielded {
			t.state = stRunning
			parked = append(parked, t)
		}
	}
	s.mu.Unlock()
	for _, t := range parked {
		t.resume <- struct{}{}
	}
	deadline := time.Now().Add(5 * time.Second)
	for time.Now().Before(deadline) {
		s.mu.Lock()
		all := true
		for _, n := range s.order {
			if s.threads[n].state != stDone {
				all = false
			}
		}
		s.mu.Unlock()
		if all {
			return
		}
		time.Sleep(20 * time.Microsecond)
	}
}

func (s *sched) isFree() bool {
	s.mu.Lock()
	defer s.mu.Unlock()
	return s.free
}

// heard: the calling thread has come back from a cond.Wait / WaitGroup.Wait. Normally it was announced by its waker;
// if the announcement had been given up (lostWake) or never made, account for it now.
func (s *sched) heard(gate bool) {
	s.mu.Lock()
	defer s.mu.Unlock()
	t := s.me()
	if t == nil {
		return
	}
	t.pendingWake = false
	if t.state == stBlocked {
		t.state = stRunning
		s.running++
		t.lostWake = false
		if gate {
			for i, w := range s.gateQ {
				if w == t {
					s.gateQ = append(append([]*thread{}, s.gateQ[:i]...), s.gateQ[i+1:]...)
					break
				}
			}
		} else {
			for k, q := range s.statusQ {
				for i, w := range q {
					if w == t {
						s.statusQ[k] = append(append([]*thread{}, q[:i]...), q[i+1:]...)
						break
					}
				}
			}
			if s.wgWait == t {
				s.wgWait = nil
			}
		}
	}
}

func (s *sched) finish(t *thread) {
	s.mu.Lock()
	t.state = stDone
	s.running--
	s.notify()
	s.mu.Unlock()
}

var statusNames = []string{"idle", "running", "succeeded", "failed"}

// point handles one verifPoint of the runner under the controlled scheduler.
func (s *sched) point(r *run, ev runner.VerifEvent) {
	switch ev.Name {
	case "run.init":
		r.rn = ev.Runner
		if r.g.cap > 0 {
			ev.Runner.SetCapacity(r.g.cap)
		}
	case "main.start":
		s.yield("mstart", ev.Label)
	case "main.wait":
		s.yield("mwait", ev.Label)
	case "run.begin":
		s.mu.Lock()
		t := s.threads[ev.Label]
		if t == nil {
			s.problems = append(s.problems, "run.begin of a thread that was never spawned: "+ev.Label)
			t = &thread{name: ev.Label, state: stRunning, resume: make(chan struct{})}
			s.threads[ev.Label] = t
			s.order = append(s.order, ev.Label)
			s.running++
		}
		s.byGid[gid()] = t
		s.mu.Unlock()
		s.yield("enter", "")
	case "run.end":
		s.mu.Lock()
		t := s.me()
		s.mu.Unlock()
		s.finish(t)
	case "run.exit":
		s.yield("exit", "")
	case "run.leave":
		s.yield("leave", "")
		s.mu.Lock()
		s.log(s.me(), "leave")
		s.live--
		if s.live == 0 && s.wgWait != nil { // Done() is about to release Wait()
			s.wgWait.state = stRunning
			s.wgWait.pendingWake = true
			s.running++
			s.wgWait = nil
		}
		s.mu.Unlock()
	case "main.waitall":
		s.yield("mwaitall", "")
		s.mu.Lock()
		if s.live > 0 {
			t := s.me()
			t.state = stBlocked
			t.at = "mwaitall"
			s.running--
			s.wgWait = t
			s.log(t, "block:mwaitall")
			s.notify()
		}
		s.mu.Unlock()
	case "main.waitedall":
		s.heard(false)
		s.mu.Lock()
		s.log(s.me(), "waitall")
		s.mu.Unlock()
	case "eval.exit":
		s.yield("exit", "")
	case "eval.reenter":
		s.yield("enter", "")
	case "eval.start":
		s.yield("start", ev.Label)
	case "eval.publish":
		s.yield("pub", "")
	case "eval.unpublish":
		s.yield("unpub", "")
	case "eval.walked":
		s.yield("walked", "")
		s.mu.Lock()
		s.log(s.me(), "walked")
		s.mu.Unlock()
	case "eval.wait":
		s.yield("wait", ev.Label)
	case "walk.self":
		s.yield("self", "")
		s.mu.Lock()
		s.log(s.me(), "self")
		s.mu.Unlock()
	case "walk.read":
		s.yield("read", ev.Label)
	case "status.lock":
		s.yield("set", "")
	// ---- observations (no yield)
	case "start.spawn":
		s.mu.Lock()
		t := s.me()
		if t.name == "m" {
			s.log(t, "start:spawn")
		} else {
			s.log(t, "start:"+ev.Label+":spawn")
		}
		if s.threads[ev.Label] != nil {
			s.problems = append(s.problems, "second goroutine spawned for "+ev.Label)
		} else {
			c := &thread{name: ev.Label, state: stRunning, resume: make(chan struct{})}
			s.threads[ev.Label] = c
			s.order = append(s.order, ev.Label)
			s.running++
			s.live++
		}
		s.status[ev.Label] = 1
		s.mu.Unlock()
	case "start.skip":
		s.mu.Lock()
		t := s.me()
		if t.name == "m" {
			s.log(t, "start:skip")
		} else {
			s.log(t, "start:"+ev.Label+":skip")
		}
		s.mu.Unlock()
	case "wait.block":
		s.mu.Lock()
		t := s.me()
		if t.state == stRunning {
			s.running--
		}
		t.state = stBlocked
		t.at, t.arg = "wait", ev.Label
		s.statusQ[ev.Label] = append(s.statusQ[ev.Label], t)
		if t.name == "m" {
			s.log(t, "block:mwait")
		} else {
			s.log(t, "block:wait:"+ev.Label)
		}
		s.notify()
		s.mu.Unlock()
	case "wait.woke":
		// as at the gate: the window between being woken by Broadcast and re-taking the target's mutex is a
		// scheduling point; the for loop re-tests the status afterwards
		s.heard(false)
		if ev.Locker != nil && !s.isFree() {
			ev.Locker.Unlock()
			s.yield("rewait", ev.Label)
			ev.Locker.Lock()
		}
	case "wait.done":
		s.mu.Lock()
		t := s.me()
		k := errKind(ev.Err)
		if t.name == "m" {
			s.log(t, "wait:"+k)
		} else {
			s.log(t, "waited:"+ev.Label+":"+k)
		}
		s.mu.Unlock()
		if ev.Status != 2 && ev.Status != 3 {
			r.violate("C04", "dep-not-final", fmt.Sprintf("wait() on %s returned while its status is %s", ev.Label, statusNames[ev.Status&3]))
		}
	case "status.set":
		s.mu.Lock()
		s.log(s.me(), "set:"+statusNames[ev.Status&3]+":"+errKind(ev.Err))
		s.status[ev.Label] = 2
		s.mu.Unlock()
	case "status.broadcast":
		s.mu.Lock()
		for _, w := range s.statusQ[ev.Label] {
			w.state = stRunning
			w.pendingWake = true
			s.running++
		}
		s.statusQ[ev.Label] = nil
		s.mu.Unlock()
	case "gate.block":
		s.mu.Lock()
		t := s.me()
		s.log(t, "block:gate")
		park := s.unlockedExit && !s.free
		s.mu.Unlock()
		if park {
			// the waiter has found the gate full and is about to Wait, still holding the gate's mutex — which this
			// code's exit does not take: let the controller run an exit here
			s.yield("blockcs", "")
		}
		s.mu.Lock()
		if t.state == stRunning {
			s.running--
		}
		t.state = stBlocked
		t.at = "enter"
		s.gateQ = append(s.gateQ, t)
		s.notify()
		s.mu.Unlock()
	case "gate.woke":
		// cond.Wait has returned and re-acquired the gate mutex. The window between being signalled and re-taking
		// the mutex is a scheduling point of the real program: give the mutex back, stop, and take it again when
		// resumed — exactly a waiter that was slow to re-acquire it. The for loop then re-tests the capacity.
		s.heard(true)
		if ev.Locker != nil && !s.isFree() {
			ev.Locker.Unlock()
			s.yield("rewake", "")
			ev.Locker.Lock()
		}
	case "gate.entered":
		s.mu.Lock()
		s.log(s.me(), "enter:"+strconv.Itoa(ev.Capacity))
		s.capacity = ev.Capacity
		s.mu.Unlock()
		r.sawCapacity(ev.Capacity)
	case "gate.exited":
		if tl, ok := ev.Locker.(interface{ TryLock() bool }); ok && tl.TryLock() {
			// the caller of exit does not hold the gate's mutex
			ev.Locker.Unlock()
			s.mu.Lock()
			s.unlockedExit = true
			s.mu.Unlock()
		}
		s.mu.Lock()
		s.log(s.me(), "exit:"+strconv.Itoa(ev.Capacity))
		s.capacity = ev.Capacity
		if len(s.gateQ) > 0 { // Signal wakes the longest waiter
			w := s.gateQ[0]
			s.gateQ = s.gateQ[1:]
			w.state = stRunning
			w.pendingWake = true
			s.running++
		}
		s.mu.Unlock()
		r.sawCapacity(ev.Capacity)
	case "eval.published":
		s.mu.Lock()
		s.log(s.me(), "pub")
		s.mu.Unlock()
	case "eval.unpublished":
		s.mu.Lock()
		s.log(s.me(), "unpub")
		s.mu.Unlock()
	case "walk.saw":
		s.mu.Lock()
		s.log(s.me(), "read:"+ev.Label+":1")
		s.mu.Unlock()
	case "walk.nil":
		s.mu.Lock()
		s.log(s.me(), "read:"+ev.Label+":0")
		s.mu.Unlock()
	}
}

// enabled: would the pending operation of a yielded thread complete (true) or block in cond.Wait (false)?
func (s *sched) enabled(t *thread) bool {
	switch t.at {
	case "enter":
		return s.capacity > 0
	case "wait", "mwait":
		return s.status[t.arg] != 1
	case "mwaitall":
		return s.live == 0
	}
	return true
}

// object touched by the pending operation of a yielded thread and whether it writes it ("" = local)
func pendingObject(t *thread) (string, bool) {
	switch t.at {
	case "enter", "exit", "rewake", "blockcs":
		return "gate", true
	case "start":
		return "status:" + t.arg, true
	case "mstart":
		return "status:" + t.arg, true
	case "wait", "mwait", "rewait":
		return "status:" + t.arg, false
	case "set":
		return "status:" + t.name, true
	case "pub", "unpub":
		return "waiting:" + t.name, true
	case "read":
		return "waiting:" + t.arg, false
	case "leave":
		return "wg", true
	case "mwaitall":
		return "wg", false
	}
	return "", false
}

type opKey struct {
	obj   string
	write bool
}

func independent(a, b opKey) bool {
	if a.obj == "" || b.obj == "" || a.obj != b.obj {
		return true
	}
	return !a.write && !b.write
}

type verdict struct {
	kind   string // done | deadlock | stuck | pruned
	detail string
}

// drive runs the controller loop until every thread is done, a deadlock, or the watchdog fires.
func (s *sched) drive(watchdog time.Duration) verdict {
	confirmed := false
	for {
		timeout := time.After(watchdog)
		grace := time.After(wakeGrace)
		for {
			s.mu.Lock()
			q := s.running == 0
			s.mu.Unlock()
			if q {
				break
			}
			select {
			case <-s.quiet:
			case <-grace:
				// Everything that still counts as moving was merely *announced* as woken (its waker was about to
				// Signal / Broadcast) and has not been heard from: the wake-up did not happen (a Signal that is not
				// executed, a waiter the code forgot). Treat those threads as still blocked and go on; should one of
				// them show up later, `heard` accounts for it.
				s.mu.Lock()
				pend := 0
				for _, n := range s.order {
					if t := s.threads[n]; t.state == stRunning && t.pendingWake {
						pend++
					}
				}
				if pend > 0 && pend == s.running {
					for _, n := range s.order {
						t := s.threads[n]
						if t.state == stRunning && t.pendingWake {
							t.state, t.pendingWake, t.lostWake = stBlocked, false, true
							s.running--
							switch t.at {
							case "enter":
								s.gateQ = append([]*thread{t}, s.gateQ...)
							case "wait":
								s.statusQ[t.arg] = append(s.statusQ[t.arg], t)
							case "mwaitall":
								s.wgWait = t
							}
							s.lost = append(s.lost, t.name+"@"+t.at)
						}
					}
					s.notify()
				}
				s.mu.Unlock()
				grace = time.After(wakeGrace)
			case <-timeout:
				s.mu.Lock()
				d := s.describe()
				s.mu.Unlock()
				return verdict{"stuck", "a goroutine neither reached a yield point nor announced blocking: " + d}
			}
		}
		s.mu.Lock()
		var ready []*thread
		alldone := true
		for _, n := range s.order {
			t := s.threads[n]
			if t.state == stYielded {
				ready = append(ready, t)
			}
			if t.state != stDone {
				alldone = false
			}
		}
		if alldone {
			s.mu.Unlock()
			return verdict{"done", ""}
		}
		if len(ready) == 0 {
			d := s.describe()
			anyLost := len(s.lost) > 0
			lost := strings.Join(s.lost, ",")
			s.mu.Unlock()
			if anyLost && !confirmed {
				// a wake-up was given up on earlier: make sure it is not merely late before calling this a deadlock
				confirmed = true
				time.Sleep(confirmLost)
				continue
			}
			if anyLost {
				d += " (announced wake-ups that never arrived: " + lost + ")"
			}
			return verdict{"deadlock", d}
		}
		confirmed = false
		sort.Slice(ready, func(i, j int) bool { return ready[i].name < ready[j].name })
		parked := false
		for _, t := range ready {
			if t.at == "blockcs" {
				parked = true
			}
		}
		if parked {
			var ok []*thread
			for _, t := range ready {
				if t.at != "enter" && t.at != "rewake" {
					ok = append(ok, t)
				}
			}
			ready = ok
		}
		t := s.pick(s, ready)
		if t == nil {
			s.mu.Unlock()
			return verdict{"pruned", ""}
		}
		t.state = stRunning
		s.running++
		s.choices = append(s.choices, t.name)
		// drain a stale quiet token
		select {
		case <-s.quiet:
		default:
		}
		s.mu.Unlock()
		t.resume <- struct{}{}
	}
}

func (s *sched) describe() string {
	var st []string
	for _, n := range s.order {
		t := s.threads[n]
		st = append(st, fmt.Sprintf("%s:%s@%s%s", n, []string{"running", "yielded", "blocked", "done"}[t.state], t.at,
			map[bool]string{true: ":" + t.arg, false: ""}[t.arg != ""]))
	}
	return strings.Join(st, " ")
}

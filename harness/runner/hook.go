//go:build verif

// Overlaid by the verification harness as github.com/pgavlin/dawn/runner/zz_verif_harness.go (go build -overlay);
// not part of /repo. It lives in package runner only to decode the unexported arguments of the verifPoint
// call sites into an exported event and to give the harness read access to the runner's shared state.
package runner

import (
	"reflect"
	"sync"
	"unsafe"
)

// The gate's capacity is read and written through reflection so that the harness keeps compiling when the field
// changes its type (int, sized ints, sync/atomic.Int32/Int64).
func capField(g *gate) reflect.Value {
	f := reflect.ValueOf(g).Elem().FieldByName("capacity")
	if f.IsValid() && f.Kind() == reflect.Struct { // atomic.IntNN: the value is in field v
		if v := f.FieldByName("v"); v.IsValid() {
			f = v
		}
	}
	return f
}

func capGet(g *gate) int {
	f := capField(g)
	if !f.IsValid() {
		return -1 << 30
	}
	switch f.Kind() {
	case reflect.Int, reflect.Int8, reflect.Int16, reflect.Int32, reflect.Int64:
		return int(f.Int())
	case reflect.Uint, reflect.Uint8, reflect.Uint16, reflect.Uint32, reflect.Uint64:
		return int(f.Uint())
	}
	return -1 << 30
}

func capSet(g *gate, n int) {
	f := capField(g)
	if !f.IsValid() || !f.CanAddr() {
		return
	}
	w := reflect.NewAt(f.Type(), unsafe.Pointer(f.UnsafeAddr())).Elem()
	switch f.Kind() {
	case reflect.Int, reflect.Int8, reflect.Int16, reflect.Int32, reflect.Int64:
		w.SetInt(int64(n))
	case reflect.Uint, reflect.Uint8, reflect.Uint16, reflect.Uint32, reflect.Uint64:
		w.SetUint(uint64(n))
	}
}

// VerifEvent is what a verifPoint call site means to the harness.
type VerifEvent struct {
	Name     string
	Label    string // label of the *target (or the string) passed at the point
	Status   int    // status of that target; meaningful only at points inside the target's critical section
	Err      error  // err of that target; same restriction
	Capacity int    // gate capacity; meaningful only at gate.* points (inside the gate's critical section)
	Runner   *VerifRunner
	Locker   sync.Locker // gate.woke / wait.woke: the mutex the caller holds (cond.Wait has just re-acquired it)
}

// VerifRunner gives the harness access to one Run's runner.
type VerifRunner struct{ r *runner }

// SetCapacity overrides the parallelism limit. Only called at run.init, before any goroutine exists.
func (v *VerifRunner) SetCapacity(n int) { capSet(v.r.gate, n) }

func (v *VerifRunner) Capacity() int {
	g := v.r.gate
	g.m.Lock()
	defer g.m.Unlock()
	return capGet(g)
}

// VerifTargetState is the final shared state of one target.
type VerifTargetState struct {
	Status    int
	Err       error
	Target    Target
	Published bool
}

// Targets returns the state of every target in the registry (call only when no goroutine of the run is active).
func (v *VerifRunner) Targets() map[string]VerifTargetState {
	out := map[string]VerifTargetState{}
	v.r.targetMap.Range(func(k, val any) bool {
		t := val.(*target)
		t.m.Lock()
		out[k.(string)] = VerifTargetState{Status: t.status, Err: t.err, Target: t.target, Published: t.waiting.Load() != nil}
		t.m.Unlock()
		return true
	})
	return out
}

var verifInstall sync.Mutex

// VerifInstall routes every verifPoint to sink (nil uninstalls). Call before Run.
func VerifInstall(sink func(VerifEvent)) {
	verifInstall.Lock()
	defer verifInstall.Unlock()
	if sink == nil {
		VerifHook = nil
		return
	}
	VerifHook = func(name string, arg any) {
		ev := VerifEvent{Name: name}
		switch a := arg.(type) {
		case *target:
			ev.Label = a.label
			switch name {
			case "start.skip", "start.spawn", "wait.block", "wait.woke", "wait.done", "status.set", "status.broadcast":
				// the caller holds a.m
				ev.Status, ev.Err = a.status, a.err
			}
			if name == "wait.woke" {
				ev.Locker = &a.m
			}
		case string:
			ev.Label = a
		case *gate:
			ev.Capacity = capGet(a) // the caller holds a.m
			ev.Locker = &a.m
		case *runner:
			ev.Runner = &VerifRunner{a}
		}
		sink(ev)
	}
}

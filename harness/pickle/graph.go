// Graph text <-> Go starlark values, for the C07/C15 harness. The text format is the one of lean/Driver/Pickle.lean.
package main

import (
	"encoding/hex"
	"errors"
	"fmt"
	"math"
	"math/big"
	"reflect"
	"strconv"
	"strings"

	"github.com/pgavlin/dawn/pickle"
	"go.starlark.net/starlark"
)

// ---- the host object handled by the harness's Pickler / Unpickler

var hostCounter uint32

type hostObj struct {
	module, name string
	args         starlark.Tuple
	id           uint32
}

func newHost(module, name string, args starlark.Tuple) *hostObj {
	hostCounter++
	return &hostObj{module, name, args, hostCounter}
}
func (h *hostObj) String() string        { return "host(" + h.module + "." + h.name + ")" }
func (h *hostObj) Type() string          { return "hostobj" }
func (h *hostObj) Freeze()               {}
func (h *hostObj) Truth() starlark.Bool  { return starlark.True }
func (h *hostObj) Hash() (uint32, error) { return h.id*2654435761 + 1, nil }

func testPickler(x starlark.Value) (string, string, starlark.Tuple, error) {
	if h, ok := x.(*hostObj); ok {
		return h.module, h.name, h.args, nil
	}
	return "", "", nil, pickle.ErrCannotPickle
}

// testUnpickler: decided by the first byte of the name (lean/Driver/Pickle.lean `testHost` is the model of it).
func testUnpickler(insane bool) pickle.UnpicklerFunc {
	return func(module, name string, args starlark.Tuple) (starlark.Value, error) {
		if len(name) > 0 {
			switch name[0] {
			case '!':
				return nil, errors.New("host rejects " + name)
			case '?':
				var empty []int
				_ = empty[len(name)] // a runtime.Error, like the unchecked assertions of dawn's envUnpickler
			case '#':
				if insane {
					panic("host panics with a non-error value")
				}
			}
		}
		return newHost(module, name, args), nil
	}
}

// ---- graph text

type val struct {
	k    byte // N b i f s y r M g
	b    bool
	i    *big.Int
	f    uint64
	s    string
	ref  int
	m, n string // global
}

type obj struct {
	k    byte // T L D S H
	xs   []val
	m, n string
}

type graph struct {
	root val
	heap []obj
}

func hx(s string) string {
	if s == "" {
		return "-"
	}
	return hex.EncodeToString([]byte(s))
}

func unhx(s string) (string, error) {
	if s == "-" {
		return "", nil
	}
	b, err := hex.DecodeString(s)
	return string(b), err
}

func (v val) String() string {
	switch v.k {
	case 'N', 'M':
		return string(v.k)
	case 'b':
		if v.b {
			return "b1"
		}
		return "b0"
	case 'i':
		return "i" + v.i.String()
	case 'f':
		return fmt.Sprintf("f%016x", v.f)
	case 's', 'y':
		return string(v.k) + hx(v.s)
	case 'r':
		return "r" + strconv.Itoa(v.ref)
	case 'g':
		return fmt.Sprintf("g%d.%s.%s", v.ref, hx(v.m), hx(v.n))
	}
	return "?"
}

func (g *graph) String() string {
	var sb strings.Builder
	sb.WriteString(g.root.String())
	sb.WriteByte('|')
	for i, o := range g.heap {
		if i > 0 {
			sb.WriteByte(';')
		}
		sb.WriteByte(o.k)
		sb.WriteByte(':')
		if o.k == 'H' {
			sb.WriteString(hx(o.m) + "." + hx(o.n) + ".")
		}
		for j, x := range o.xs {
			if j > 0 {
				sb.WriteByte(',')
			}
			sb.WriteString(x.String())
		}
	}
	return sb.String()
}

func parseVal(s string) (val, error) {
	if s == "" {
		return val{}, errors.New("empty value")
	}
	switch s[0] {
	case 'N', 'M':
		return val{k: s[0]}, nil
	case 'b':
		return val{k: 'b', b: s == "b1"}, nil
	case 'i':
		i, ok := new(big.Int).SetString(s[1:], 10)
		if !ok {
			return val{}, errors.New("bad int " + s)
		}
		return val{k: 'i', i: i}, nil
	case 'f':
		f, err := strconv.ParseUint(s[1:], 16, 64)
		return val{k: 'f', f: f}, err
	case 's', 'y':
		t, err := unhx(s[1:])
		return val{k: s[0], s: t}, err
	case 'r':
		n, err := strconv.Atoi(s[1:])
		return val{k: 'r', ref: n}, err
	}
	return val{}, errors.New("bad value " + s)
}

func parseGraph(s string) (*graph, error) {
	parts := strings.SplitN(s, "|", 2)
	if len(parts) != 2 {
		return nil, errors.New("no |")
	}
	root, err := parseVal(parts[0])
	if err != nil {
		return nil, err
	}
	g := &graph{root: root}
	if parts[1] == "" {
		return g, nil
	}
	for _, os := range strings.Split(parts[1], ";") {
		if len(os) < 2 || os[1] != ':' {
			return nil, errors.New("bad object " + os)
		}
		o := obj{k: os[0]}
		body := os[2:]
		if o.k == 'H' {
			f := strings.SplitN(body, ".", 3)
			if len(f) != 3 {
				return nil, errors.New("bad host " + os)
			}
			if o.m, err = unhx(f[0]); err != nil {
				return nil, err
			}
			if o.n, err = unhx(f[1]); err != nil {
				return nil, err
			}
			body = f[2]
		}
		if body != "" {
			for _, vs := range strings.Split(body, ",") {
				v, err := parseVal(vs)
				if err != nil {
					return nil, err
				}
				o.xs = append(o.xs, v)
			}
		}
		g.heap = append(g.heap, o)
	}
	return g, nil
}

// build the Go value a graph denotes. Containers are allocated first and filled afterwards, so cycles and sharing
// come out as Go pointer identity; tuples and host objects are built on demand (they may only reach each other
// through lower addresses or through containers).
func (g *graph) build() (starlark.Value, error) {
	made := make([]starlark.Value, len(g.heap))
	state := make([]byte, len(g.heap))
	for a, o := range g.heap {
		switch o.k {
		case 'L':
			made[a] = starlark.NewList(nil)
		case 'D':
			made[a] = starlark.NewDict(0)
		case 'S':
			made[a] = starlark.NewSet(0)
		}
	}
	var mk func(v val) (starlark.Value, error)
	mk = func(v val) (starlark.Value, error) {
		switch v.k {
		case 'N':
			return starlark.None, nil
		case 'b':
			return starlark.Bool(v.b), nil
		case 'i':
			return starlark.MakeBigInt(v.i), nil
		case 'f':
			return starlark.Float(math.Float64frombits(v.f)), nil
		case 's':
			return starlark.String(v.s), nil
		case 'y':
			return starlark.Bytes(v.s), nil
		case 'r':
			if v.ref < 0 || v.ref >= len(g.heap) {
				return nil, errors.New("dangling reference")
			}
			if made[v.ref] != nil {
				return made[v.ref], nil
			}
			if state[v.ref] == 1 {
				return nil, errors.New("cycle through tuples/host objects only")
			}
			state[v.ref] = 1
			o := g.heap[v.ref]
			var xs starlark.Tuple
			for _, x := range o.xs {
				y, err := mk(x)
				if err != nil {
					return nil, err
				}
				xs = append(xs, y)
			}
			if o.k == 'T' {
				if xs == nil {
					xs = starlark.Tuple{}
				}
				made[v.ref] = xs
			} else {
				args, ok := xs[0].(starlark.Tuple)
				if len(xs) != 1 || !ok {
					return nil, errors.New("host args must be a tuple")
				}
				made[v.ref] = newHost(o.m, o.n, args)
			}
			return made[v.ref], nil
		}
		return nil, errors.New("not buildable: " + v.String())
	}
	for a, o := range g.heap {
		switch o.k {
		case 'L':
			for _, x := range o.xs {
				y, err := mk(x)
				if err != nil {
					return nil, err
				}
				made[a].(*starlark.List).Append(y)
			}
		case 'S':
			for _, x := range o.xs {
				y, err := mk(x)
				if err != nil {
					return nil, err
				}
				if err := made[a].(*starlark.Set).Insert(y); err != nil {
					return nil, err
				}
			}
		case 'D':
			for j := 0; j+1 < len(o.xs); j += 2 {
				k, err := mk(o.xs[j])
				if err != nil {
					return nil, err
				}
				w, err := mk(o.xs[j+1])
				if err != nil {
					return nil, err
				}
				if err := made[a].(*starlark.Dict).SetKey(k, w); err != nil {
					return nil, err
				}
			}
		}
	}
	return mk(g.root)
}

var errTooBig = errors.New("dump too big")

// dump canonicalises a Go value: addresses in the order the decoder allocates (containers when first met, tuples
// and host objects when complete); every tuple occurrence is its own object (tuple identity is not observable).
func dump(x starlark.Value, limit int) (*graph, error) {
	g := &graph{}
	seen := map[any]int{}
	globals := map[any]int{}
	nodes := 0
	var walk func(x starlark.Value) (val, error)
	seq := func(it starlark.Iterator) ([]val, error) {
		defer it.Done()
		var out []val
		var e starlark.Value
		for it.Next(&e) {
			v, err := walk(e)
			if err != nil {
				return nil, err
			}
			out = append(out, v)
		}
		return out, nil
	}
	walk = func(x starlark.Value) (val, error) {
		nodes++
		if nodes > limit {
			return val{}, errTooBig
		}
		if x == nil {
			return val{}, errors.New("nil value inside")
		}
		if pickle.VerifIsMark(x) {
			return val{k: 'M'}, nil
		}
		if id, m, n, ok := pickle.VerifGlobal(x); ok {
			k, ok := globals[id]
			if !ok {
				k = len(globals)
				globals[id] = k
			}
			return val{k: 'g', ref: k, m: m, n: n}, nil
		}
		switch x := x.(type) {
		case starlark.NoneType:
			return val{k: 'N'}, nil
		case starlark.Bool:
			return val{k: 'b', b: bool(x)}, nil
		case starlark.Int:
			return val{k: 'i', i: x.BigInt()}, nil
		case starlark.Float:
			return val{k: 'f', f: math.Float64bits(float64(x))}, nil
		case starlark.String:
			return val{k: 's', s: string(x)}, nil
		case starlark.Bytes:
			return val{k: 'y', s: string(x)}, nil
		case starlark.Tuple:
			var xs []val
			for _, e := range x {
				v, err := walk(e)
				if err != nil {
					return val{}, err
				}
				xs = append(xs, v)
			}
			g.heap = append(g.heap, obj{k: 'T', xs: xs})
			return val{k: 'r', ref: len(g.heap) - 1}, nil
		case *hostObj:
			if a, ok := seen[x]; ok {
				return val{k: 'r', ref: a}, nil
			}
			args, err := walk(x.args)
			if err != nil {
				return val{}, err
			}
			g.heap = append(g.heap, obj{k: 'H', m: x.module, n: x.name, xs: []val{args}})
			seen[x] = len(g.heap) - 1
			return val{k: 'r', ref: len(g.heap) - 1}, nil
		case *starlark.List:
			if a, ok := seen[x]; ok {
				return val{k: 'r', ref: a}, nil
			}
			a := len(g.heap)
			seen[x] = a
			g.heap = append(g.heap, obj{k: 'L'})
			xs, err := seq(x.Iterate())
			if err != nil {
				return val{}, err
			}
			g.heap[a].xs = xs
			return val{k: 'r', ref: a}, nil
		case *starlark.Set:
			if a, ok := seen[x]; ok {
				return val{k: 'r', ref: a}, nil
			}
			a := len(g.heap)
			seen[x] = a
			g.heap = append(g.heap, obj{k: 'S'})
			xs, err := seq(x.Iterate())
			if err != nil {
				return val{}, err
			}
			g.heap[a].xs = xs
			return val{k: 'r', ref: a}, nil
		case *starlark.Dict:
			if a, ok := seen[x]; ok {
				return val{k: 'r', ref: a}, nil
			}
			a := len(g.heap)
			seen[x] = a
			g.heap = append(g.heap, obj{k: 'D'})
			var xs []val
			for _, it := range x.Items() {
				k, err := walk(it[0])
				if err != nil {
					return val{}, err
				}
				v, err := walk(it[1])
				if err != nil {
					return val{}, err
				}
				xs = append(xs, k, v)
			}
			g.heap[a].xs = xs
			return val{k: 'r', ref: a}, nil
		}
		return val{}, fmt.Errorf("unexpected value of type %T", x)
	}
	r, err := walk(x)
	if err != nil {
		return nil, err
	}
	g.root = r
	return g, nil
}

// wellFormed uses a decoded value the way its consumers do (C15: "a well-formed non-nil value"): every node reachable from
// it must be a non-nil value that is not a typed nil pointer and whose Type, Truth, Hash, Len, iteration and (at the
// root) String can be called without a panic. Hash errors (unhashable) are fine; panics are not.
func wellFormed(x starlark.Value) (problem string) {
	defer func() {
		if p := recover(); p != nil {
			problem = fmt.Sprintf("panic while using the value: %v", p)
		}
	}()
	seen := map[any]bool{}
	nodes := 0
	var walk func(x starlark.Value) string
	walk = func(x starlark.Value) string {
		nodes++
		if nodes > dumpLimit {
			return ""
		}
		if x == nil {
			return "nil value inside"
		}
		rv := reflect.ValueOf(x)
		switch rv.Kind() {
		case reflect.Ptr, reflect.Func, reflect.Map, reflect.Chan, reflect.Interface, reflect.UnsafePointer:
			if rv.IsNil() {
				return fmt.Sprintf("typed nil %T inside", x)
			}
		}
		_ = x.Type()
		_ = x.Truth()
		if nodes <= 20000 {
			_, _ = x.Hash()
		}
		var kids []starlark.Value
		switch x := x.(type) {
		case starlark.Tuple:
			kids = x
		case *starlark.List:
			if seen[x] {
				return ""
			}
			seen[x] = true
			for i := 0; i < x.Len(); i++ {
				kids = append(kids, x.Index(i))
			}
		case *starlark.Dict:
			if seen[x] {
				return ""
			}
			seen[x] = true
			_ = x.Len()
			for _, it := range x.Items() {
				kids = append(kids, it[0], it[1])
			}
		case *starlark.Set:
			if seen[x] {
				return ""
			}
			seen[x] = true
			_ = x.Len()
			kids = x.Elems()
		case *hostObj:
			if seen[x] {
				return ""
			}
			seen[x] = true
			kids = []starlark.Value{x.args}
		}
		for _, k := range kids {
			if p := walk(k); p != "" {
				return p
			}
		}
		return ""
	}
	if p := walk(x); p != "" {
		return p
	}
	if nodes <= 20000 {
		_ = x.String()
	}
	return ""
}

// safeDump is dump under recover: a value that cannot even be traversed is ill-formed, not a reason to die
func safeDump(x starlark.Value, limit int) (g *graph, err error) {
	defer func() {
		if p := recover(); p != nil {
			g, err = nil, fmt.Errorf("panic while traversing the value: %v", p)
		}
	}()
	return dump(x, limit)
}

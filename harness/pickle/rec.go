// Record-level stream of C15: corrupt the persisted stamp of a function target and run Load+Run in a child process.
package main

import (
	"bytes"
	"encoding/base64"
	"encoding/json"
	"fmt"
	"os"
	"os/exec"
	"path/filepath"
	"sort"
	"strings"
	"sync"
	"sync/atomic"
	"time"

	"github.com/pgavlin/dawn"
	"github.com/pgavlin/dawn/diff"
	"github.com/pgavlin/dawn/label"
	starlark_sh "github.com/pgavlin/dawn/lib/sh"
	"github.com/pgavlin/dawn/pickle"
	"go.starlark.net/starlark"
)

const buildFile = `K = 300
NAMES = ["a", "b", ("c", 4.5), {"k": b"v", 7: None}]

def helper(x, y=70000, *rest, **kw):
    return x + K + y + len(NAMES)

def mk(n):
    def inner(x, z=(1, "two")):
        return x + n + len(z)
    return inner

INC = mk(3)

@target(sources=["a.txt"], generates=["out.txt"], deps=["//a:ta", "//b:tb"], default=True)
def t():
    helper(1)
    INC(2)
    sh.exec("echo run >> log.txt && cp a.txt out.txt")
`

// two more packages, each with a function target of its own (they load concurrently with the root package)
const buildFileA = `A = [1, 2, 3]

@target()
def ta():
    sh.exec("echo run-a >> ../log.txt; echo %d" % len(A))
`

const buildFileB = `def twice(x):
    return 2 * x

@target()
def tb():
    twice(4)
    sh.exec("echo run-b >> ../log.txt")
`

// evaluated records which targets a run (re-)evaluated
type evaluated struct {
	dawn.Events
	mu     sync.Mutex
	labels []string
}

func (e *evaluated) TargetEvaluating(l *label.Label, reason string, d diff.ValueDiff) {
	e.mu.Lock()
	e.labels = append(e.labels, l.String())
	e.mu.Unlock()
}

var childReuse, childPreferIndex bool

func child(dir string) {
	// a child never outlives its watchdog: a Load / Reload / Run that blocks for ever is reported, not waited for
	time.AfterFunc(10*time.Second, func() {
		fmt.Println("RESULT hang")
		os.Exit(0)
	})
	def, _ := label.Parse("//:default")
	ev := &evaluated{Events: dawn.DiscardEvents}
	proj, err := dawn.Load(dir, &dawn.LoadOptions{Builtins: starlark.StringDict{"sh": starlark_sh.Module}, PreferIndex: childPreferIndex, Events: ev})
	if err != nil {
		fmt.Println("RESULT load-error")
		return
	}
	if childReuse {
		// the SAME Project used again after a record went bad under it (watch mode, the REPL, library users): every
		// file X.fault under .dawn/build replaces X, then Reload twice, Targets, Run
		filepath.Walk(filepath.Join(dir, ".dawn", "build"), func(p string, info os.FileInfo, err error) error {
			if err == nil && strings.HasSuffix(p, ".fault") {
				os.Rename(p, strings.TrimSuffix(p, ".fault"))
			}
			return nil
		})
		// (as watch mode does: a failed Reload is retried at the next change and nothing is run on it)
		e1 := proj.Reload()
		e2 := proj.Reload()
		_ = proj.Targets()
		if e1 != nil || e2 != nil {
			_ = proj.Reload()
			_, _ = proj.Target(def)
			fmt.Println("RESULT load-error")
			return
		}
		if err := proj.Run(def, nil); err != nil {
			_ = proj.Run(def, nil) // and once more on the same Project
			_ = proj.Targets()
			fmt.Println("RESULT run-error")
			return
		}
	}
	if err := proj.Run(def, nil); err != nil {
		fmt.Println("RESULT run-error")
		return
	}
	sort.Strings(ev.labels)
	fmt.Println("EVALUATED " + strings.Join(ev.labels, ","))
	fmt.Println("RESULT ok")
}

func runChild(dir string) (string, string) { return runChildP(dir, false) }

func runChildP(dir string, prefer bool) (string, string) { return runChildPR(dir, prefer, false) }

// After this many children that crashed or hung the record-level streams stop spawning more: the check has failed, and
// every hang costs its watchdog's time.
const maxFatalChildren = 6

var fatalChildren int32

func tooManyFatal() bool { return atomic.LoadInt32(&fatalChildren) >= maxFatalChildren }

func runChildPR(dir string, prefer, reuse bool) (res string, detail string) {
	defer func() {
		if res == "crash" || res == "hang" || res == "spawn-failed" {
			atomic.AddInt32(&fatalChildren, 1)
		}
	}()
	args := []string{"-child", dir}
	if prefer {
		args = append(args, "-prefer")
	}
	if reuse {
		args = append(args, "-reuse")
	}
	cmd := exec.Command(os.Args[0], args...)
	var out, errb bytes.Buffer
	cmd.Stdout, cmd.Stderr = &out, &errb
	if err := cmd.Start(); err != nil {
		return "spawn-failed", err.Error()
	}
	done := make(chan error, 1)
	go func() { done <- cmd.Wait() }()
	select {
	case <-done:
	case <-time.After(20 * time.Second):
		cmd.Process.Kill()
		return "hang", ""
	}
	evaluatedLabels := ""
	for _, l := range strings.Split(out.String(), "\n") {
		if strings.HasPrefix(l, "EVALUATED ") {
			evaluatedLabels = l[10:]
		}
		if strings.HasPrefix(l, "RESULT ") {
			return l[7:], evaluatedLabels // for `ok`: the targets the run evaluated
		}
	}
	e := errb.String()
	if len(e) > 600 {
		e = e[:600]
	}
	return "crash", e
}

func logLines(dir string) int {
	b, _ := os.ReadFile(filepath.Join(dir, "log.txt"))
	return bytes.Count(b, []byte("\n"))
}

func envDump(bs []byte) string {
	out := "?"
	guarded(func() {
		x, err := pickle.NewDecoder(bytes.NewReader(bs), pickle.UnpicklerFunc(dawn.VerifEnvUnpickler)).Decode()
		switch {
		case err != nil:
			out = "err"
		case x == nil:
			out = "nil"
		default:
			if g, derr := dump(x, dumpLimit); derr == nil {
				out = "ok " + g.String()
			} else {
				out = "undumpable " + derr.Error()
			}
		}
	})
	return out
}

// set by -replay: the exact record content of a past failure
var replayRecord string

type recCase struct {
	kind  string
	fixed []byte // replay: the record file's content
	stamp string // what goes into the record's "stamp" field
	raw   []byte // the pickle bytes, when the stamp is valid base64
}

func runRecords(r *rng, tier string) {
	n, workers := 60, 8
	if tier == "thorough" {
		n = 3000
	}
	base, err := os.MkdirTemp("", "verif-pickle-rec")
	if err != nil {
		stats["rec.setup-failed"]++
		return
	}
	defer os.RemoveAll(base)
	mk := func(i int) string {
		dir := filepath.Join(base, fmt.Sprintf("p%d", i))
		os.MkdirAll(dir, 0o755)
		os.WriteFile(filepath.Join(dir, ".dawnconfig"), nil, 0o644)
		os.WriteFile(filepath.Join(dir, "BUILD.dawn"), []byte(buildFile), 0o644)
		os.MkdirAll(filepath.Join(dir, "a"), 0o755)
		os.MkdirAll(filepath.Join(dir, "b"), 0o755)
		os.WriteFile(filepath.Join(dir, "a", "BUILD.dawn"), []byte(buildFileA), 0o644)
		os.WriteFile(filepath.Join(dir, "b", "BUILD.dawn"), []byte(buildFileB), 0o644)
		os.WriteFile(filepath.Join(dir, "a.txt"), []byte("source\n"), 0o644)
		return dir
	}
	// a clean build gives the genuine record
	dir0 := mk(0)
	if res, e := runChild(dir0); res != "ok" || logLines(dir0) != 3 {
		stats["rec.setup-failed"]++
		fmt.Fprintln(os.Stderr, "record stream: clean build failed:", res, e, logLines(dir0))
		return
	}
	recPath := filepath.Join(dir0, ".dawn", "build", "targets", "%2Ft")
	recBytes, err := os.ReadFile(recPath)
	var rec map[string]any
	if err != nil || json.Unmarshal(recBytes, &rec) != nil {
		stats["rec.setup-failed"]++
		fmt.Fprintln(os.Stderr, "record stream: no record at", recPath, err)
		return
	}
	stamp, _ := rec["stamp"].(string)
	orig, err := base64.StdEncoding.DecodeString(stamp)
	if err != nil || len(orig) == 0 {
		stats["rec.setup-failed"]++
		return
	}
	origDump := envDump(orig)
	// unchanged tree, unchanged record: nothing executes
	if res, _ := runChild(dir0); res != "ok" || logLines(dir0) != 3 {
		violation("record-spurious", map[string]any{"stream": "rec", "stamp": stamp}, "second build of the unchanged tree: "+res)
	}
	if replayRecord == "" && replayFault == nil {
		envStream(orig, tier)
	}
	if replayFault != nil {
		n = 0
	}
	var cases []recCase
	// single-byte substitutions where the genuine record has an (empty) association list or tuple: the stamp still
	// decodes, to an environment of a different shape
	if replayRecord == "" && replayFault == nil {
		var flips []recCase
		for p, b := range orig {
			if b != ')' && b != 'N' && b != ']' {
				continue
			}
			for _, sub := range []byte{'N', ']', '}', 0x88, 0x89, 0x8f, ')'} {
				if sub == b {
					continue
				}
				m := append([]byte{}, orig...)
				m[p] = sub
				flips = append(flips, recCase{kind: "shape-flip", raw: m, stamp: base64.StdEncoding.EncodeToString(m)})
			}
		}
		limit := 48
		if tier == "thorough" {
			limit = len(flips)
		}
		for len(flips) > limit { // a seeded sample in the quick tier
			k := r.below(len(flips))
			flips = append(flips[:k], flips[k+1:]...)
		}
		cases = append(cases, flips...)
		stats["rec.shape-flips"] = len(flips)
		cases = append(cases, structureCases(r, orig, origDump, tier)...)
	}
	if replayRecord != "" {
		n = 0
		c := recCase{kind: "replay", fixed: []byte(replayRecord)}
		var probe map[string]any
		if json.Unmarshal(c.fixed, &probe) == nil {
			if st, ok := probe["stamp"].(string); ok {
				if raw, err := base64.StdEncoding.DecodeString(st); err == nil {
					c.raw = raw
				}
			}
		}
		cases = append(cases, c)
	}
	for i := 0; i < n; i++ {
		var c recCase
		switch i % 8 {
		case 0: // the record file itself corrupted byte-wise
			c = recCase{kind: "file", stamp: ""}
		case 1: // not base64
			c = recCase{kind: "base64", stamp: stamp[:r.below(len(stamp))] + "*" + r.str(3)}
		case 2: // a well-formed pickle of some other value
			x, err := r.randomGraph().build()
			if err != nil {
				continue
			}
			bs, _ := goEncode(x, false)
			if bs == nil {
				continue
			}
			c = recCase{kind: "other-value", raw: bs}
		case 3:
			c = recCase{kind: "soup", raw: r.soup2()}
		case 4:
			c = recCase{kind: "truncated", raw: orig[:r.below(len(orig))]}
		default:
			m := r.mutate(orig)
			if i%3 == 0 {
				m = r.mutate(m)
			}
			c = recCase{kind: "mutated", raw: m}
		}
		if c.raw != nil {
			if !declaredOK(c.raw) {
				stats["rec.outside-precondition"]++
				continue
			}
			c.stamp = base64.StdEncoding.EncodeToString(c.raw)
		}
		cases = append(cases, c)
	}
	snap := snapshotBuild(dir0)
	var mu sync.Mutex
	var wg sync.WaitGroup
	ch := make(chan recCase)
	for wk := 1; wk <= workers; wk++ {
		dir := mk(wk)
		wg.Add(1)
		go func(dir string) {
			defer wg.Done()
			path := filepath.Join(dir, ".dawn", "build", "targets", "%2Ft")
			os.MkdirAll(filepath.Dir(path), 0o755)
			os.MkdirAll(filepath.Join(dir, ".dawn", "build", "temp"), 0o755)
			os.WriteFile(filepath.Join(dir, "out.txt"), []byte("source\n"), 0o644)
			for c := range ch {
				if tooManyFatal() && replayRecord == "" {
					mu.Lock()
					stats["rec.skipped-after-fatal-cases"]++
					mu.Unlock()
					continue
				}
				restoreBuild(dir, snap) // the clean, fully built state; then only this one record differs
				content := recBytes
				if c.fixed != nil {
					content = c.fixed
				} else if c.kind == "file" {
					mu.Lock()
					content = r.mutate(recBytes)
					mu.Unlock()
				} else {
					rec2 := map[string]any{}
					for k, v := range rec {
						rec2[k] = v
					}
					rec2["stamp"] = c.stamp
					content, _ = json.Marshal(rec2)
				}
				os.WriteFile(path, content, 0o644)
				os.Remove(filepath.Join(dir, "log.txt"))
				res, detail := runChild(dir)
				executed := logLines(dir)
				decoded := ""
				if c.raw != nil {
					decoded = envDump(c.raw)
				}
				mu.Lock()
				stats["rec.cases"]++
				stats["rec."+c.kind+"."+res]++
				input := map[string]any{"stream": "rec", "kind": c.kind, "record": string(content)}
				switch {
				case res == "crash" || res == "hang" || res == "spawn-failed":
					violation("record-"+res, input, "Load+Run on a corrupted record: "+detail)
				case res == "ok" && executed == 0:
					// treated as up to date: legitimate only if the stamp still decodes to the same environment
					if c.kind == "file" || (c.fixed != nil && c.raw == nil) {
						var probe map[string]any
						if json.Unmarshal(content, &probe) != nil || probe["stamp"] != stamp {
							violation("record-silently-up-to-date", input, "the record file was changed and the target was treated as up to date")
						} else {
							stats["rec.semantically-unchanged"]++
						}
					} else if decoded != origDump {
						violation("record-silently-up-to-date", input, "the stamp decodes to "+decoded[:min(len(decoded), 200)]+" and the target was treated as up to date")
					} else {
						stats["rec.semantically-unchanged"]++
					}
				case res == "ok":
					stats["rec.reexecuted"]++
				}
				mu.Unlock()
			}
		}(dir)
	}
	for _, c := range cases {
		ch <- c
	}
	close(ch)
	wg.Wait()
	if replayRecord == "" {
		runFileFaults(r, tier, dir0, mk)
	}
	if replayRecord == "" && (replayFault == nil || replayFault["stream"] == "recmulti") {
		runMultiPackage(tier, dir0, mk, snap)
	}
}

// envStream: in-process Decode of corruptions of a GENUINE function-environment record with dawn's own envUnpickler as
// the host: every single-byte substitution by an implemented opcode at every position (all 256 byte values in the
// thorough tier), every truncation, and seeded multi-byte mutations. Judged: an error, or a well-formed non-nil value.
func envStream(orig []byte, tier string) {
	stats["env.record-bytes"] = len(orig)
	subs := append([]byte{}, implemented...)
	if tier == "thorough" {
		subs = subs[:0]
		for b := 0; b < 256; b++ {
			subs = append(subs, byte(b))
		}
	}
	for p := range orig {
		for _, b := range subs {
			if b == orig[p] {
				continue
			}
			m := append([]byte{}, orig...)
			m[p] = b
			runCase(func() { doBytes("dec.env-subst", m, "E", true) })
		}
	}
	for n := 0; n < len(orig); n++ {
		n := n
		runCase(func() { doBytes("dec.env-truncated", orig[:n], "E", true) })
	}
	r := &rng{s: 99}
	k := 3000
	if tier == "thorough" {
		k = 100000
	}
	for i := 0; i < k; i++ {
		m := r.mutate(r.mutate(orig))
		runCase(func() { doBytes("dec.env-mutated", m, "E", true) })
	}
	runCase(func() { doBytes("dec.env-genuine", orig, "E", true) })
	marker()
}

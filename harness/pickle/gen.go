// Generators of object graphs and of byte strings for the C07/C15 harness.
package main

import (
	"fmt"
	"math/big"
	"strings"
)

type rng struct{ s uint64 }

func (r *rng) next() uint64 {
	r.s += 0x9E3779B97F4A7C15
	z := r.s
	z = (z ^ (z >> 30)) * 0xBF58476D1CE4E5B9
	z = (z ^ (z >> 27)) * 0x94D049BB133111EB
	return z ^ (z >> 31)
}
func (r *rng) below(n int) int { return int(r.next() % uint64(n)) }
func (r *rng) chance(num, den int) bool { return r.below(den) < num }

func bigOf(s string) *big.Int { i, _ := new(big.Int).SetString(s, 10); return i }

func pow2(k uint, delta int64) *big.Int {
	x := new(big.Int).Lsh(big.NewInt(1), k)
	return x.Add(x, big.NewInt(delta))
}

// every integer width boundary +-1, both signs, and two 200-digit numbers
func boundaryInts() []*big.Int {
	var out []*big.Int
	for _, k := range []uint{0, 8, 16, 31, 32, 63, 64} {
		for d := int64(-2); d <= 2; d++ {
			p := pow2(k, d)
			out = append(out, p, new(big.Int).Neg(p))
		}
	}
	out = append(out, big.NewInt(0), bigOf("1"+strings.Repeat("0", 200)), bigOf("-9"+strings.Repeat("7", 199)))
	return out
}

var specialFloats = []uint64{0, 0x8000000000000000, 0x3ff0000000000000, 0xbff0000000000000, 0x3ff8000000000000,
	0x7ff0000000000000, 0xfff0000000000000, 0x7ff8000000000001, 0xfff8000000000000 /* another NaN */, 0x7ff0000000000001, 0x0000000000000001, 0x7fefffffffffffff,
	0x4070000000000000 /* 256.0 */, 0x40f0000000000000 /* 65536.0 */, 0x43e0000000000000 /* 2^63 */}

func vi(i int64) val       { return val{k: 'i', i: big.NewInt(i)} }
func vs(s string) val      { return val{k: 's', s: s} }
func vy(s string) val      { return val{k: 'y', s: s} }
func vf(f uint64) val      { return val{k: 'f', f: f} }
func vr(a int) val         { return val{k: 'r', ref: a} }
func vbig(i *big.Int) val  { return val{k: 'i', i: i} }

func (g *graph) add(o obj) val { g.heap = append(g.heap, o); return vr(len(g.heap) - 1) }

func (r *rng) str(n int) string {
	b := make([]byte, n)
	mode := r.below(3)
	for i := range b {
		switch mode {
		case 0:
			b[i] = byte('a' + r.below(26))
		case 1:
			b[i] = byte(r.below(256)) // arbitrary bytes: Go strings are not validated
		default:
			b[i] = "\n\x00.()héé"[r.below(8)]
		}
	}
	return string(b)
}

func (r *rng) atom() val {
	switch r.below(9) {
	case 0:
		return val{k: 'N'}
	case 1:
		return val{k: 'b', b: r.chance(1, 2)}
	case 2:
		bs := boundaryInts()
		return vbig(bs[r.below(len(bs))])
	case 3:
		x := new(big.Int).SetUint64(r.next() >> uint(r.below(64)))
		if r.chance(1, 2) {
			x.Neg(x)
		}
		return vbig(x)
	case 4:
		if r.chance(1, 2) {
			return vf(specialFloats[r.below(len(specialFloats))])
		}
		return vf(r.next())
	case 5, 6:
		return vs(r.str(r.below(6)))
	case 7:
		return vy(r.str(r.below(6)))
	default:
		return vi(int64(r.below(70000)))
	}
}

// n distinct hashable keys
func keys(n, salt int) []val {
	out := make([]val, n)
	for i := range out {
		switch (i + salt) % 3 {
		case 0:
			out[i] = vi(int64(i))
		case 1:
			out[i] = vs("k" + big.NewInt(int64(i)).String())
		default:
			out[i] = vi(int64(-i - 1))
		}
	}
	return out
}

// a container of kind k with n elements produced by elem
func (g *graph) container(k byte, n, salt int, elem func(i int) val) val {
	o := obj{k: k}
	switch k {
	case 'D':
		ks := keys(n, salt)
		for i := 0; i < n; i++ {
			o.xs = append(o.xs, ks[i], elem(i))
		}
	case 'S':
		o.xs = keys(n, salt)
	default:
		for i := 0; i < n; i++ {
			o.xs = append(o.xs, elem(i))
		}
	}
	return g.add(o)
}

// wrap v at a nesting position
func (g *graph) nest(pos int, v val) val {
	switch pos {
	case 1: // ("a", X)
		return g.add(obj{k: 'T', xs: []val{vs("a"), v}})
	case 2: // [X]
		return g.add(obj{k: 'L', xs: []val{v}})
	case 3: // {"k": X, "l": 1}
		return g.add(obj{k: 'D', xs: []val{vs("k"), v, vs("l"), vi(1)}})
	case 4: // (X, X, 7, X, 8): the same object several times in a 4+-tuple
		return g.add(obj{k: 'T', xs: []val{v, v, vi(7), v, vi(8)}})
	case 5: // host object whose args hold X
		t := g.add(obj{k: 'T', xs: []val{v, vs("arg")}})
		return g.add(obj{k: 'H', m: "mod", n: "Name", xs: []val{t}})
	case 6: // [[X], X]
		in := g.add(obj{k: 'L', xs: []val{v}})
		return g.add(obj{k: 'L', xs: []val{in, v}})
	}
	return v
}

const nestPositions = 7

var sizeClasses = []int{0, 1, 2, 3, 4, 5, 999, 1000, 1001, 2001}

type gcase struct {
	g     *graph
	class string
}

// the directed cases of C07's quantifier
func directed(tier string) []gcase {
	var out []gcase
	add := func(class string, g *graph) { out = append(out, gcase{g, class}) }
	for _, b := range boundaryInts() {
		add("int", &graph{root: vbig(b)})
		g := &graph{}
		g.root = g.nest(1, vbig(b))
		add("int-nested", g)
	}
	for _, f := range specialFloats {
		add("float", &graph{root: vf(f)})
	}
	add("none", &graph{root: val{k: 'N'}})
	add("bool", &graph{root: val{k: 'b', b: true}})
	add("bool", &graph{root: val{k: 'b', b: false}})
	r := &rng{s: 7}
	for _, n := range []int{0, 1, 255, 256, 257, 65535, 65536} {
		add("str-len", &graph{root: vs(r.str(n))})
		add("bytes-len", &graph{root: vy(r.str(n))})
		g := &graph{}
		g.root = g.add(obj{k: 'D', xs: []val{vs(r.str(n)), vy(r.str(n))}})
		add("str-len-in-dict", g)
	}
	for _, k := range []byte{'T', 'L', 'D', 'S'} {
		for _, n := range sizeClasses {
			for pos := 0; pos < nestPositions; pos++ {
				if k == 'S' && pos == 4 && n > 5 && tier == "quick" {
					continue
				}
				g := &graph{}
				v := g.container(k, n, pos, func(i int) val { return vi(int64(i * 3)) })
				g.root = g.nest(pos, v)
				add(string(k)+"-size", g)
			}
		}
	}
	// big containers of containers: memo ids beyond 255 (LONG_BINGET), and big inside big
	for _, n := range []int{300, 1001} {
		g := &graph{}
		var inner []val
		for i := 0; i < n; i++ {
			inner = append(inner, g.add(obj{k: 'L', xs: []val{vi(int64(i))}}))
		}
		g.root = g.add(obj{k: 'L', xs: append(append([]val{}, inner...), inner...)})
		add("long-binget", g)
	}
	{
		g := &graph{}
		big1 := g.container('L', 1001, 0, func(i int) val { return vi(int64(i)) })
		g.root = g.container('L', 1001, 0, func(i int) val {
			if i%500 == 0 {
				return big1
			}
			return vi(int64(i))
		})
		add("big-in-big", g)
	}
	{
		g := &graph{}
		l := g.container('L', 2001, 0, func(i int) val { return vs("x") })
		d := g.container('D', 2001, 1, func(i int) val { return l })
		g.root = g.add(obj{k: 'T', xs: []val{d, l, d}})
		add("big-shared", g)
	}
	// aliasing patterns
	{
		g := &graph{heap: []obj{{k: 'L', xs: []val{vr(0)}}}, root: vr(0)}
		add("alias-self-list", g)
		g = &graph{heap: []obj{{k: 'D', xs: []val{vs("self"), vr(0)}}}, root: vr(0)}
		add("alias-self-dict", g)
		g = &graph{heap: []obj{{k: 'L', xs: []val{vi(1)}}, {k: 'T', xs: []val{vr(0), vr(0)}}}, root: vr(1)}
		add("alias-diamond", g)
		g = &graph{heap: []obj{{k: 'L', xs: []val{vr(1)}}, {k: 'D', xs: []val{vs("l"), vr(0)}}}, root: vr(0)}
		add("alias-cross-cycle", g)
		g = &graph{heap: []obj{{k: 'L', xs: []val{vr(1)}}, {k: 'D', xs: []val{vs("l"), vr(0)}}}, root: vr(1)}
		add("alias-cross-cycle", g)
		g = &graph{heap: []obj{{k: 'L', xs: []val{vr(2), vr(0)}}, {k: 'T', xs: []val{vr(0), vi(5)}}, {k: 'T', xs: []val{vr(1), vr(0)}}}, root: vr(0)}
		add("alias-through-tuples", g)
		// a host object shared, and one whose args reach the list that holds it
		g = &graph{heap: []obj{{k: 'T', xs: []val{vi(1)}}, {k: 'H', m: "m", n: "N", xs: []val{vr(0)}}, {k: 'L', xs: []val{vr(1), vr(1)}}}, root: vr(2)}
		add("alias-host-shared", g)
		g = &graph{heap: []obj{{k: 'L', xs: []val{vr(2)}}, {k: 'T', xs: []val{vr(0)}}, {k: 'H', m: "m", n: "N", xs: []val{vr(1)}}}, root: vr(0)}
		add("alias-host-cycle", g)
		// self loop in a list with more than one batch
		g = &graph{}
		g.root = g.container('L', 1001, 0, func(i int) val {
			if i == 1000 || i == 3 {
				return vr(0)
			}
			return vi(int64(i))
		})
		add("alias-self-big", g)
		g = &graph{}
		g.root = g.container('D', 1001, 0, func(i int) val {
			if i == 1000 || i == 3 {
				return vr(0)
			}
			return vi(int64(i))
		})
		add("alias-self-big", g)
	}
	out = append(out, cycleFamily()...)
	// host objects: as dict keys, nested, 0 args, a name of 256+ bytes
	{
		g := &graph{heap: []obj{{k: 'T'}, {k: 'H', m: "", n: "", xs: []val{vr(0)}}}, root: vr(1)}
		add("host", g)
		g = &graph{heap: []obj{{k: 'T', xs: []val{vi(1)}}, {k: 'H', m: strings.Repeat("m", 256), n: strings.Repeat("n", 300), xs: []val{vr(0)}},
			{k: 'T', xs: []val{vr(1)}}, {k: 'H', m: "outer", n: "O", xs: []val{vr(2)}},
			{k: 'D', xs: []val{vr(3), vr(1), vr(1), vr(3)}}}, root: vr(4)}
		add("host", g)
	}
	return out
}

// Every memoised container kind reaching ITSELF through every chain of up to two further nodes (depth 1..3), on the value
// side (list element, dict value, tuple element, host args) and on the key side (dict key, set element: through tuples
// and host objects, the only hashable carriers). Chains that Starlark itself rejects (an unhashable key) are counted as
// unbuildable and skipped. Each graph is rooted at the container and at a tuple holding it twice.
func cycleFamily() []gcase {
	kinds := []string{"L", "Dv", "Dk", "S", "T", "H"}
	chains := [][]string{nil}
	for _, a := range kinds {
		chains = append(chains, []string{a})
		for _, b := range kinds {
			chains = append(chains, []string{a, b})
		}
	}
	var out []gcase
	for _, k1 := range []string{"L", "Dv", "Dk", "S"} {
		for _, ch := range chains {
			path := append([]string{k1}, ch...)
			n := len(path)
			g := &graph{}
			addr := make([]int, n)
			for i, k := range path {
				addr[i] = len(g.heap)
				g.heap = append(g.heap, obj{})
				if k == "H" {
					g.heap = append(g.heap, obj{})
				}
			}
			ref := func(i int) val {
				i %= n
				if path[i] == "H" {
					return vr(addr[i] + 1)
				}
				return vr(addr[i])
			}
			for i, k := range path {
				child := ref(i + 1)
				switch k {
				case "L":
					g.heap[addr[i]] = obj{k: 'L', xs: []val{vi(int64(i)), child}}
				case "Dv":
					g.heap[addr[i]] = obj{k: 'D', xs: []val{vs("k"), child, vi(1), vi(2)}}
				case "Dk":
					g.heap[addr[i]] = obj{k: 'D', xs: []val{child, vi(int64(i)), vs("z"), {k: 'N'}}}
				case "S":
					g.heap[addr[i]] = obj{k: 'S', xs: []val{vi(7), child}}
				case "T":
					g.heap[addr[i]] = obj{k: 'T', xs: []val{child, vs("t")}}
				case "H":
					g.heap[addr[i]] = obj{k: 'T', xs: []val{child}}
					g.heap[addr[i]+1] = obj{k: 'H', m: "cyc", n: "N", xs: []val{vr(addr[i])}}
				}
			}
			class := "cycle-" + strings.Join(path, ">")
			g.root = ref(0)
			out = append(out, gcase{g, class})
			g2 := &graph{heap: append(append([]obj{}, g.heap...), obj{k: 'T', xs: []val{ref(0), vs("x"), ref(0)}})}
			g2.root = vr(len(g2.heap) - 1)
			out = append(out, gcase{g2, class + "/twice"})
		}
	}
	return out
}

// a random graph: containers may refer to any container or host object made so far (and to themselves)
func (r *rng) randomGraph() *graph { return r.randomGraphK(0) }

// with k > 0 the root is a tuple of k random values drawn from one pool of shareable containers (a stream of k values)
func (r *rng) randomGraphK(k int) *graph {
	g := &graph{}
	var shareable []val
	var make_ func(depth int, hashable bool) val
	make_ = func(depth int, hashable bool) val {
		if depth <= 0 || r.chance(2, 5) {
			return r.atom()
		}
		if !hashable && len(shareable) > 0 && r.chance(1, 4) {
			return shareable[r.below(len(shareable))]
		}
		kinds := "TTLDSH"
		if hashable {
			kinds = "TTH"
		}
		k := kinds[r.below(len(kinds))]
		n := r.below(6)
		if r.chance(1, 12) {
			n = 6 + r.below(20)
		}
		if k != 'H' && !hashable && r.chance(1, 300) { // a container around the batch boundary anywhere in a random graph
			n = 999 + r.below(4)
			if r.chance(1, 4) {
				n = 1999 + r.below(4)
			}
			depth = 1
		}
		switch k {
		case 'T':
			var xs []val
			for i := 0; i < n; i++ {
				xs = append(xs, make_(depth-1, hashable))
			}
			return g.add(obj{k: 'T', xs: xs})
		case 'H':
			var xs []val
			for i := 0; i < n%3; i++ {
				xs = append(xs, make_(depth-1, false))
			}
			t := g.add(obj{k: 'T', xs: xs})
			h := g.add(obj{k: 'H', m: r.str(r.below(4)), n: "N" + r.str(r.below(4)), xs: []val{t}})
			shareable = append(shareable, h)
			return h
		case 'L':
			a := len(g.heap)
			g.heap = append(g.heap, obj{k: 'L'})
			shareable = append(shareable, vr(a))
			var xs []val
			for i := 0; i < n; i++ {
				xs = append(xs, make_(depth-1, false))
			}
			g.heap[a].xs = xs
			return vr(a)
		case 'S':
			a := len(g.heap)
			g.heap = append(g.heap, obj{k: 'S'})
			shareable = append(shareable, vr(a))
			var xs []val
			for i := 0; i < n; i++ {
				xs = append(xs, make_(depth-1, true))
			}
			g.heap[a].xs = xs
			return vr(a)
		default:
			a := len(g.heap)
			g.heap = append(g.heap, obj{k: 'D'})
			shareable = append(shareable, vr(a))
			var xs []val
			for i := 0; i < n; i++ {
				xs = append(xs, make_(depth-1, true), make_(depth-1, false))
			}
			g.heap[a].xs = xs
			return vr(a)
		}
	}
	if k > 0 {
		var xs []val
		for i := 0; i < k; i++ {
			if len(shareable) > 0 && r.chance(1, 3) { // an earlier value's container again, as a later value of the stream
				xs = append(xs, shareable[r.below(len(shareable))])
			} else {
				xs = append(xs, make_(1+r.below(4), false))
			}
		}
		g.root = g.add(obj{k: 'T', xs: xs})
		return g
	}
	g.root = make_(2+r.below(4), false)
	return g
}

// ---- byte-level generators (C15)

var implemented = []byte{'(', '.', 0x94, 'h', 'j', 'N', 0x88, 0x89, 'I', 'K', 'M', 'J', 'G', 0x8c, 'X', 'C', 'B', ']', 'a', 'e', ')',
	0x85, 0x86, 0x87, 't', '}', 'u', 0x8f, 0x90, 0x93, 0x81}

func le32(n int) []byte { return []byte{byte(n), byte(n >> 8), byte(n >> 16), byte(n >> 24)} }

var intTexts = []string{"0", "-1", "12345678901234567890123", "", "-", "+5", "0x1f", "0b101", "0o17", "017", "08", "1_000", "1__0", "_1",
	"1e3", " 1", "1 ", "-0", "00", "abc", "0x", "-0x10", "9", "4294967296"}

// one op with a payload; bias selects how hostile the payload is
func (r *rng) soupOp(total int) []byte {
	op := implemented[r.below(len(implemented))]
	if r.chance(1, 40) {
		op = byte(r.below(256))
	}
	if r.chance(1, 12) {
		// an opcode of the pickle protocols that this decoder does not implement, with the payload a standard
		// pickler would write after it: whatever a tree does with it, the answer must be a value or an error
		return r.foreignOp()
	}
	out := []byte{op}
	name := func() string {
		switch r.below(8) {
		case 0:
			return "!bad"
		case 1:
			return "?rt"
		case 2:
			return "#boom"
		}
		return r.str(r.below(4))
	}
	switch op {
	case 'h', 'K':
		out = append(out, byte(r.below(6)))
		if r.chance(1, 8) {
			out[1] = byte(r.below(256))
		}
	case 'j':
		n := r.below(6)
		if r.chance(1, 6) {
			n = int(r.next() & 0xffffffff)
		}
		out = append(out, le32(n)...)
	case 'M':
		out = append(out, byte(r.below(256)), byte(r.below(256)))
	case 'J':
		out = append(out, le32(int(r.next()&0xffffffff))...)
	case 'G':
		f := specialFloats[r.below(len(specialFloats))]
		if r.chance(1, 2) {
			f = r.next()
		}
		for i := 0; i < 8; i++ {
			out = append(out, byte(f>>(8*uint(i))))
		}
	case 'I':
		out = append(out, intTexts[r.below(len(intTexts))]...)
		if !r.chance(1, 20) {
			out = append(out, '\n')
		}
	case 0x8c, 'C':
		s := name()
		l := len(s)
		if r.chance(1, 8) {
			l = r.below(total + 2) // declared length differs from what follows
		}
		out = append(out, byte(l))
		out = append(out, s...)
	case 'X', 'B':
		s := name()
		l := len(s)
		if r.chance(1, 6) {
			l = r.below(total + 2) // huge declared lengths are capped at the input size (C15's precondition)
		}
		out = append(out, le32(l)...)
		out = append(out, s...)
	}
	return out
}

// foreignOp: opcodes of pickle protocols 0-5 outside this codec's subset (explicit memo slots, text-mode ops, frames,
// object construction), each followed by a plausible payload and, for the memo ops, often by a fetch of a nearby slot.
func (r *rng) foreignOp() []byte {
	line := func(s string) []byte { return append([]byte(s), '\n') }
	small := func() byte { return byte(r.below(5)) }
	switch r.below(16) {
	case 0, 1, 2: // BINPUT n [BINGET m]
		out := []byte{'q', small()}
		if r.chance(2, 3) {
			out = append(out, 'h', small())
		}
		return out
	case 3, 4: // LONG_BINPUT n [LONG_BINGET m]
		out := append([]byte{'r'}, le32(r.below(5))...)
		if r.chance(2, 3) {
			out = append(append(out, 'j'), le32(r.below(5))...)
		}
		return out
	case 5: // PUT / GET, text mode
		return append(append([]byte{'p'}, line(fmt.Sprint(r.below(5)))...), append([]byte{'g'}, line(fmt.Sprint(r.below(5)))...)...)
	case 6: // PROTO, FRAME
		return append([]byte{0x80, byte(2 + r.below(4)), 0x95}, 8, 0, 0, 0, 0, 0, 0, 0)
	case 7: // POP, POP_MARK, DUP
		return []byte{"012"[r.below(3)]}
	case 8: // text-mode scalars
		return [][]byte{append([]byte{'L'}, line("12L")...), append([]byte{'F'}, line("1.5")...), append([]byte{'S'}, line("'abc'")...), append([]byte{'V'}, line("abc")...)}[r.below(4)]
	case 9: // LONG1, LONG4
		return [][]byte{{0x8a, 2, 0x39, 0x30}, {0x8b, 1, 0, 0, 0, 7}}[r.below(2)]
	case 10: // SHORT_BINSTRING, BINSTRING, BINUNICODE8, BINBYTES8, BYTEARRAY8
		return [][]byte{{'U', 2, 'a', 'b'}, {'T', 2, 0, 0, 0, 'a', 'b'}, {0x8d, 1, 0, 0, 0, 0, 0, 0, 0, 'a'}, {0x8e, 1, 0, 0, 0, 0, 0, 0, 0, 'a'}, {0x96, 1, 0, 0, 0, 0, 0, 0, 0, 'a'}}[r.below(5)]
	case 11: // LIST, DICT, SETITEM, FROZENSET (mark-based and pairwise container ops)
		return []byte{"lds"[r.below(3)]}
	case 12:
		return []byte{0x91}
	case 13: // GLOBAL, REDUCE, BUILD, OBJ, INST, NEWOBJ_EX, STACK_GLOBAL-less construction
		return [][]byte{append(append([]byte{'c'}, line("m")...), line("x")...), {'R'}, {'b'}, {'o'}, append(append([]byte{'i'}, line("m")...), line("x")...), {0x92}}[r.below(6)]
	case 14: // EXT1/2/4, PERSID, BINPERSID
		return [][]byte{{0x82, 1}, {0x83, 1, 0}, {0x84, 1, 0, 0, 0}, append([]byte{'P'}, line("id")...), {'Q'}}[r.below(5)]
	default: // out-of-band buffers
		return []byte{[]byte{0x97, 0x98}[r.below(2)]}
	}
}

// grammar-guided soup: mostly well-formed fragments so that deep states are reached, with hostile ops mixed in
func (r *rng) soup() []byte {
	n := 1 + r.below(40)
	total := n * 4
	var out []byte
	frag := func(s ...byte) { out = append(out, s...) }
	for i := 0; i < n; i++ {
		switch r.below(14) {
		case 0: // a list with elements
			frag(']', 0x94, '(', 'K', byte(r.below(4)), 'N', 'e')
		case 1: // a dict
			frag('}', 0x94, '(', 'K', byte(r.below(3)), 'K', byte(r.below(3)), 'u')
		case 2: // a set
			frag(0x8f, 0x94, '(', 'K', byte(r.below(3)), 'G', 0, 0, 0, 0, 0, 0, 0xf0, 0x3f, 'K', 1, 0x90)
		case 3: // a host object
			frag(0x8c, 1, 'm', 0x8c, 2, "N!?#a"[r.below(5)], 'x', 0x93, ')', 0x81, 0x94)
		case 4: // memo reference
			frag('h', byte(r.below(4)))
		case 5: // tuple of what is there
			frag([]byte{0x85, 0x86, 0x87, 't', ')'}[r.below(5)])
		case 6: // float / int keys that alias
			frag('(', 'K', 1, 'N', 'G', 0, 0, 0, 0, 0, 0, 0xf0, 0x3f, 0x88, 'u')
		default:
			out = append(out, r.soupOp(total)...)
		}
	}
	if !r.chance(1, 6) {
		out = append(out, '.')
	}
	return out
}

// stack-aware soup: tracks the kinds on the decoder's stack and mostly emits ops that are valid there, so that long
// programs survive; hostile ops are mixed in with probability 1/6 per step.
func (r *rng) soup2() []byte {
	var out []byte
	var st, memo []byte // kinds: a atom, s string, L D S T, M mark, G global, H host
	n := 3 + r.below(60)
	push := func(k byte) { st = append(st, k) }
	markPos := func() int {
		for i := len(st) - 1; i >= 0; i-- {
			if st[i] == 'M' {
				return i
			}
		}
		return -1
	}
	for i := 0; i < n; i++ {
		if r.chance(1, 6) {
			out = append(out, r.soupOp(n*3)...)
			if r.chance(1, 2) {
				continue
			}
			return append(out, '.')
		}
		var cands []byte
		cands = append(cands, 'K', 'N', 0x8c, ']', '}', 0x8f, ')', '(', 'G', 'M', 'C', 0x88)
		if len(st) > 0 {
			cands = append(cands, 0x94, 0x94, 0x85)
		}
		if len(memo) > 0 {
			cands = append(cands, 'h', 'h', 'h')
		}
		if len(st) > 1 {
			cands = append(cands, 0x86)
			if st[len(st)-2] == 'L' {
				cands = append(cands, 'a', 'a', 'a')
			}
			if st[len(st)-1] == 's' && st[len(st)-2] == 's' {
				cands = append(cands, 0x93, 0x93, 0x93, 0x93)
			}
			if st[len(st)-1] == 'T' && st[len(st)-2] == 'G' {
				cands = append(cands, 0x81, 0x81, 0x81, 0x81, 0x81, 0x81)
			}
		}
		if len(st) > 2 {
			cands = append(cands, 0x87)
		}
		if p := markPos(); p >= 0 {
			cands = append(cands, 't', 't')
			if p > 0 {
				switch st[p-1] {
				case 'L':
					cands = append(cands, 'e', 'e', 'e', 'e')
				case 'D':
					if (len(st)-p-1)%2 == 0 || r.chance(1, 10) {
						cands = append(cands, 'u', 'u', 'u', 'u')
					}
				case 'S':
					cands = append(cands, 0x90, 0x90, 0x90, 0x90)
				}
			}
		}
		op := cands[r.below(len(cands))]
		out = append(out, op)
		switch op {
		case 'K':
			out = append(out, byte(r.below(4)))
			push('a')
		case 'M':
			out = append(out, byte(r.below(3)), byte(r.below(2)))
			push('a')
		case 'N', 0x88:
			push('a')
		case 'G':
			f := specialFloats[r.below(len(specialFloats))]
			for k := 0; k < 8; k++ {
				out = append(out, byte(f>>(8*uint(k))))
			}
			push('a')
		case 0x8c, 'C':
			s := []string{"m", "N", "!no", "?rt", "#x", "", "k"}[r.below(7)]
			out = append(out, byte(len(s)))
			out = append(out, s...)
			if op == 0x8c {
				push('s')
			} else {
				push('a')
			}
		case ']':
			push('L')
		case '}':
			push('D')
		case 0x8f:
			push('S')
		case ')':
			push('T')
		case '(':
			push('M')
		case 0x94:
			memo = append(memo, st[len(st)-1])
		case 'h':
			k := r.below(len(memo))
			out = append(out, byte(k))
			push(memo[k])
		case 0x85:
			st = append(st[:len(st)-1], 'T')
		case 0x86:
			st = append(st[:len(st)-2], 'T')
		case 0x87:
			st = append(st[:len(st)-3], 'T')
		case 't':
			st = append(st[:markPos()], 'T')
		case 'a':
			st = st[:len(st)-1]
		case 'e', 'u', 0x90:
			st = st[:markPos()]
		case 0x93:
			st = append(st[:len(st)-2], 'G')
		case 0x81:
			st = append(st[:len(st)-2], 'H')
		}
	}
	if !r.chance(1, 8) {
		out = append(out, '.')
	}
	return out
}

func (r *rng) mutate(bs []byte) []byte {
	out := append([]byte{}, bs...)
	if len(out) == 0 {
		return out
	}
	switch r.below(6) {
	case 0: // truncation
		return out[:r.below(len(out))]
	case 1: // single bit flip
		out[r.below(len(out))] ^= 1 << uint(r.below(8))
	case 2: // byte replaced
		out[r.below(len(out))] = byte(r.below(256))
	case 3: // several bytes replaced
		for k := 0; k < 2+r.below(4); k++ {
			out[r.below(len(out))] = byte(r.below(256))
		}
	case 4: // byte replaced by an implemented opcode
		out[r.below(len(out))] = implemented[r.below(len(implemented))]
	default: // a byte deleted or inserted
		p := r.below(len(out))
		if r.chance(1, 2) {
			out = append(out[:p], out[p+1:]...)
		} else {
			out = append(out[:p], append([]byte{implemented[r.below(len(implemented))]}, out[p:]...)...)
		}
	}
	return out
}

// KEY-level and field-level mutations of a record's JSON (record-level stream of C15), and the in-process judge of the
// label escaping that record keys go through.
package main

import (
	"bytes"
	"encoding/hex"
	"encoding/json"
	"fmt"
	"sort"
	"strings"

	"github.com/pgavlin/dawn"
)

// a JSON string literal that keeps every byte of s as it is (invalid UTF-8 included): only what must be escaped is
func rawQuote(s []byte) []byte {
	out := []byte{'"'}
	for _, c := range s {
		switch {
		case c == '"' || c == '\\':
			out = append(out, '\\', c)
		case c < 0x20:
			out = append(out, []byte(fmt.Sprintf("\\u%04x", c))...)
		default:
			out = append(out, c)
		}
	}
	return append(out, '"')
}

type rawField struct {
	key string
	val []byte // raw JSON
}

// the record rebuilt from its top-level fields, `dependencies` from (raw key, raw value) pairs
func renderRecord(fields []rawField, deps []rawField, depsOverride []byte) []byte {
	var b bytes.Buffer
	b.WriteByte('{')
	for i, f := range fields {
		if i > 0 {
			b.WriteByte(',')
		}
		b.Write(rawQuote([]byte(f.key)))
		b.WriteByte(':')
		if f.key == "dependencies" && depsOverride == nil {
			b.WriteByte('{')
			for j, d := range deps {
				if j > 0 {
					b.WriteByte(',')
				}
				b.Write(rawQuote([]byte(d.key)))
				b.WriteByte(':')
				b.Write(d.val)
			}
			b.WriteByte('}')
		} else if f.key == "dependencies" {
			b.Write(depsOverride)
		} else {
			b.Write(f.val)
		}
	}
	b.WriteString("}\n")
	return b.Bytes()
}

func sortedRaw(m map[string]json.RawMessage) []rawField {
	var ks []string
	for k := range m {
		ks = append(ks, k)
	}
	sort.Strings(ks)
	var out []rawField
	for _, k := range ks {
		out = append(out, rawField{k, m[k]})
	}
	return out
}

// jsonFaults: the mutants of one record file
func jsonFaults(file string, orig []byte) []fileFault {
	var top map[string]json.RawMessage
	if json.Unmarshal(orig, &top) != nil {
		return nil
	}
	fields := sortedRaw(top)
	var depm map[string]json.RawMessage
	if d, ok := top["dependencies"]; ok {
		json.Unmarshal(d, &depm)
	}
	deps := sortedRaw(depm)
	var out []fileFault
	add := func(name string, content []byte) {
		out = append(out, fileFault{file: file, kind: "content", name: name, content: content})
	}
	const fffd = "\xef\xbf\xbd"
	// every dependency key
	for i, d := range deps {
		withKey := func(name, k string) {
			ds := append([]rawField{}, deps...)
			ds[i] = rawField{k, d.val}
			add("json-key-"+name, renderRecord(fields, ds, nil))
		}
		k := d.key
		for back := 1; back <= 3 && back <= len(k); back++ {
			p := len(k) - back
			for _, rep := range []string{"\xff", "\x80", fffd} {
				withKey(fmt.Sprintf("byte-%d-from-end", back), k[:p]+rep+k[p+1:])
			}
			withKey("truncated", k[:p])
		}
		for _, suffix := range []string{fffd, fffd + "a", fffd + "zz", fffd + "--", fffd + "6", fffd + "ff", fffd + fffd, "\xef\xbf", "\xef"} {
			withKey("suffix", k+suffix)
		}
		withKey("prefix", fffd+"7a"+k)
		if len(k) > 0 { // a second key that unescapes to this one, with another stamp
			ds := append(append([]rawField{}, deps...), rawField{k[:len(k)-1] + fffd + hex.EncodeToString([]byte{k[len(k)-1]}), []byte(`"other-stamp"`)})
			add("json-key-collision", renderRecord(fields, ds, nil))
		}
		// the stamp value of this dependency
		for _, v := range otherTypes {
			ds := append([]rawField{}, deps...)
			ds[i] = rawField{k, []byte(v)}
			add("json-dep-value", renderRecord(fields, ds, nil))
		}
	}
	if len(deps) == 0 { // a record without dependencies gets keys of the dangerous shapes
		for _, k := range []string{fffd, fffd + "a", "x" + fffd, "\xff", "x\xff", fffd + "--", fffd + "zz"} {
			fs := append(append([]rawField{}, fields...), rawField{"dependencies", nil})
			add("json-key-added", renderRecord(fs, []rawField{{k, []byte(`"s"`)}}, nil))
		}
	}
	// every field, by every other JSON type, and very long
	for _, name := range []string{"stamp", "runs", "rerun", "attrs", "doc", "dependencies"} {
		for _, v := range otherTypes {
			fs := []rawField{}
			found := false
			for _, f := range fields {
				if f.key == name {
					found = true
					fs = append(fs, rawField{name, []byte(v)})
				} else {
					fs = append(fs, f)
				}
			}
			if !found {
				fs = append(fs, rawField{name, []byte(v)})
			}
			var over []byte
			if name == "dependencies" {
				over = []byte(v)
			}
			var ds []rawField
			if name != "dependencies" {
				ds = deps
			}
			add("json-field-"+name, renderRecord(fs, ds, over))
		}
	}
	return out
}

var otherTypes = []string{"5", "-1", "null", "true", "[]", "{}", `""`, `"` + strings.Repeat("x", 1<<20) + `"`, `["a"]`, `{"a":"b"}`}

// ---- escapeLabel / unescapeLabel, in process

func labelCase(s string) {
	input := map[string]any{"stream": "label", "hex": hexb([]byte(s))}
	announce(input)
	var back, un string
	p, hung := guarded(func() {
		un = dawn.VerifUnescapeLabel(s) // on an arbitrary string: must not panic
		back = dawn.VerifUnescapeLabel(dawn.VerifEscapeLabel(s))
	})
	_ = un
	stats["label.cases"]++
	switch {
	case hung || p != nil:
		violation("label-escape-panic", input, fmt.Sprintf("unescapeLabel / escapeLabel on %q: hung=%v panic=%v", s, hung, p))
	case back != s:
		violation("label-escape-roundtrip", input, fmt.Sprintf("unescapeLabel(escapeLabel(%q)) = %q", s, back))
	}
}

func runLabels(r *rng, tier string) {
	alphabet := []byte{'a', 0xff, 0xef, 0xbf, 0xbd, '-', '0'}
	maxLen := 5
	if tier == "thorough" {
		maxLen = 7
	}
	var gen func(prefix []byte)
	gen = func(prefix []byte) {
		s := string(prefix)
		runCase(func() { labelCase(s) })
		if len(prefix) == maxLen {
			return
		}
		for _, c := range alphabet {
			gen(append(append([]byte{}, prefix...), c))
		}
	}
	gen(nil)
	n := 20000
	if tier == "thorough" {
		n = 400000
	}
	pool := []string{"\xef\xbf\xbd", "\xef\xbf\xbd--", "\xef\xbf\xbdff", "\xef\xbf\xbd0", "\xef\xbf", "\xef", "\xff", "-", "7", "a", "//pkg:t", "é", "\x00", "g", "F"}
	for i := 0; i < n; i++ {
		var b []byte
		for k := r.below(9); k >= 0; k-- {
			if r.chance(1, 5) {
				b = append(b, byte(r.below(256)))
			} else {
				b = append(b, pool[r.below(len(pool))]...)
			}
		}
		s := string(b)
		runCase(func() { labelCase(s) })
	}
	marker()
}

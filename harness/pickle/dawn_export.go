// Overlaid INTO package dawn by the pickle verification harness (never part of /repo): exposes the unpickler that
// function targets use for their persisted environment, the reversible escaping of dependency labels in records, and a
// semantic comparison of two record files, so that the record-level streams of C15 can tell whether a corrupted record
// still means what it meant.
package dawn

import (
	"bytes"
	"encoding/json"
	"reflect"

	"go.starlark.net/starlark"
)

// VerifEnvUnpickler is envUnpickler.
func VerifEnvUnpickler(module, name string, args starlark.Tuple) (starlark.Value, error) {
	return envUnpickler(module, name, args)
}

// VerifEscapeLabel / VerifUnescapeLabel are escapeLabel / unescapeLabel.
func VerifEscapeLabel(s string) string   { return escapeLabel(s) }
func VerifUnescapeLabel(s string) string { return unescapeLabel(s) }

// VerifSameRecord reports whether two record files decode, the way loadTargetInfo decodes them, to the same targetInfo.
func VerifSameRecord(a, b []byte, ignoreRuns, source bool) bool {
	var x, y targetInfo
	// (a streaming decoder, like loadTargetInfo: what follows the first JSON value is not read)
	if json.NewDecoder(bytes.NewReader(a)).Decode(&x) != nil || json.NewDecoder(bytes.NewReader(b)).Decode(&y) != nil {
		return false
	}
	x.Doc, y.Doc = "", "" // documentation: never part of an up-to-date decision
	if source {          // attrs is compared for function targets only (runTarget.Evaluate)
		x.Attrs, y.Attrs = "", ""
	}
	if ignoreRuns { // the run counter of a target is read only by its dependents
		x.Runs, y.Runs = 0, 0
	}
	if y.Attrs == "" { // "Empty in records written by older versions": by design such a record is not rerun for its attrs
		x.Attrs = ""
	}
	if len(x.Dependencies) == 0 && len(y.Dependencies) == 0 {
		x.Dependencies, y.Dependencies = nil, nil
	}
	return reflect.DeepEqual(x, y)
}

// Overlaid INTO package dawn by the pickle verification harness (never part of /repo): exposes the unpickler that
// function targets use for their persisted environment, so that the record-level stream of C15 can tell whether a
// corrupted stamp still decodes, and to what.
package dawn

import "go.starlark.net/starlark"

// VerifEnvUnpickler is envUnpickler.
func VerifEnvUnpickler(module, name string, args starlark.Tuple) (starlark.Value, error) {
	return envUnpickler(module, name, args)
}

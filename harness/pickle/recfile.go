// File-level faults of the record-level stream of C15: every persisted file a load reads (.dawn/build/targets/*,
// .dawn/build/sources/*, .dawn/build/index.json) truncated, replaced by junk / valid JSON of the wrong shape / a
// directory / an unreadable file, then Load + Run in a child process with PreferIndex false and true.
package main

import (
	"encoding/base64"
	"encoding/json"
	"fmt"
	"os"
	"path/filepath"
	"sort"
	"strings"
	"sync"

	"github.com/pgavlin/dawn"
)

// set by -replay
var replayFault map[string]any

type fileFault struct {
	file    string // relative to the project root
	kind    string // content | dir | unreadable
	name    string // what was done, for the histogram
	content []byte
	prefer  bool
}

func (f fileFault) input() map[string]any {
	return map[string]any{"stream": "recfile", "file": f.file, "fault": f.kind, "name": f.name,
		"content": base64.StdEncoding.EncodeToString(f.content), "prefer": f.prefer}
}

var wrongShapes = []string{"\n", "{", "}", "[", "[]", "5", "-1", "\"x\"", "null", "true", "{}", "[{}]", "{\"a\":1}", "{{", "{\"stamp\"",
	"{\"doc\":5}", "{\"doc\":null}", "{\"dependencies\":[]}", "{\"dependencies\":{\"a\":1}}", "{\"dependencies\":\"x\"}",
	"{\"dependencies\":{\"a\":null}}", "{\"stamp\":{}}", "{\"stamp\":5}", "{\"stamp\":[\"a\"]}", "{\"stamp\":null}", "{\"rerun\":\"x\"}", "{\"rerun\":1}",
	"{\"runs\":\"x\"}", "{\"runs\":-1}", "{\"runs\":1e99}", "{\"runs\":1.5}", "{\"runs\":null}",
	"{\"flags\":5}", "{\"flags\":[null]}", "{\"flags\":[{\"name\":5}]}", "{\"flags\":[5]}", "{\"targets\":5}", "{\"targets\":[5]}", "{\"targets\":[null]}",
	"{\"targets\":[{\"label\":5}]}", "{\"targets\":[{\"label\":\"not a label\"}]}", "{\"targets\":[{\"label\":\"//:t\"}]}",
	"{\"targets\":[{\"label\":\"//:nosuch\"}]}", "{\"targets\":[{\"label\":\"source://:a.txt\"}]}", "{\"targets\":[{\"label\":null,\"summary\":7}]}",
	"\x00", "\x00\x00\x00\x00", "\xff\xfe", "{\"stamp\":\"\x00\"}"}

func runFileFaults(r *rng, tier string, dir0 string, mk func(int) string) {
	if replayFault != nil && replayFault["stream"] != "recfile" {
		return
	}
	snap := snapshotBuild(dir0)
	var files []string
	for f := range snap {
		files = append(files, f)
	}
	sort.Strings(files)
	stats["recfile.persisted-files"] = len(files)
	var faults []fileFault
	if replayFault != nil {
		c, _ := base64.StdEncoding.DecodeString(fmt.Sprint(replayFault["content"]))
		faults = append(faults, fileFault{file: fmt.Sprint(replayFault["file"]), kind: fmt.Sprint(replayFault["fault"]), name: "replay",
			content: c, prefer: replayFault["prefer"] == true})
	} else {
		for _, f := range files {
			orig := snap[f]
			var one []fileFault
			lens := map[int]bool{0: true, 1: true, 2: true, len(orig) - 1: true, len(orig) / 2: true}
			if tier == "thorough" || len(orig) <= 64 {
				for n := 0; n < len(orig); n++ {
					lens[n] = true
				}
			} else {
				for k := 0; k < 10; k++ {
					lens[r.below(len(orig))] = true
				}
			}
			var ls []int
			for n := range lens {
				if n >= 0 && n < len(orig) {
					ls = append(ls, n)
				}
			}
			sort.Ints(ls)
			for _, n := range ls {
				one = append(one, fileFault{file: f, kind: "content", name: fmt.Sprintf("truncated-%s", bucket(n)), content: orig[:n]})
			}
			for _, s := range wrongShapes {
				one = append(one, fileFault{file: f, kind: "content", name: "shape", content: []byte(s)})
			}
			withNul := append([]byte{}, orig...)
			if len(withNul) > 0 {
				withNul[r.below(len(withNul))] = 0
			}
			one = append(one, fileFault{file: f, kind: "content", name: "nul-inside", content: withNul},
				fileFault{file: f, kind: "content", name: "all-nul", content: make([]byte, len(orig))},
				fileFault{file: f, kind: "content", name: "trailing-garbage", content: append(append([]byte{}, orig...), "{}x"...)},
				fileFault{file: f, kind: "dir", name: "directory"})
			if os.Geteuid() != 0 { // root reads a mode-000 file anyway
				one = append(one, fileFault{file: f, kind: "unreadable", name: "chmod-000"})
			} else {
				stats["recfile.chmod-skipped-as-root"]++
			}
			if !strings.HasSuffix(f, "index.json") { // key- and field-level mutants of the record's JSON
				js := jsonFaults(f, orig)
				stats["recfile.json-mutants"] += len(js)
				one = append(one, js...)
			}
			for _, ff := range one {
				faults = append(faults, ff)
				if strings.HasPrefix(ff.name, "json-field") || strings.HasPrefix(ff.name, "json-dep-value") {
					continue // (the field-level mutants only through a full load)
				}
				ff.prefer = true
				faults = append(faults, ff)
			}
		}
	}
	var mu sync.Mutex
	var wg sync.WaitGroup
	ch := make(chan fileFault)
	for wk := 0; wk < 8; wk++ {
		dir := mk(100 + wk)
		wg.Add(1)
		go func(dir string) {
			defer wg.Done()
			for ff := range ch {
				if tooManyFatal() && replayFault == nil {
					mu.Lock()
					stats["recfile.skipped-after-fatal-cases"]++
					mu.Unlock()
					continue
				}
				os.Chmod(filepath.Join(dir, ff.file), 0o644)
				restoreBuild(dir, snap)
				path := filepath.Join(dir, ff.file)
				switch ff.kind {
				case "content":
					os.WriteFile(path, ff.content, 0o644)
				case "dir":
					os.Remove(path)
					os.Mkdir(path, 0o755)
				case "unreadable":
					os.Chmod(path, 0)
				}
				res, detail := runChildP(dir, ff.prefer)
				executed := logLines(dir)
				os.Chmod(path, 0o644)
				mu.Lock()
				stats["recfile.cases"]++
				kindOfFile := "index"
				if strings.Contains(ff.file, "targets") {
					kindOfFile = "target"
				} else if strings.Contains(ff.file, "sources") {
					kindOfFile = "source"
				}
				pf := "full"
				if ff.prefer {
					pf = "prefer-index"
				}
				stats["recfile."+kindOfFile+"."+pf+"."+res]++
				stats["recfile.fault."+ff.name]++
				switch {
				case res == "crash" || res == "hang" || res == "spawn-failed":
					violation("record-"+res, ff.input(), "Load+Run after a file-level fault ("+ff.name+" on "+ff.file+"): "+detail)
				case res == "ok" && executed == 0 && detail == "" && kindOfFile != "index" && !ff.prefer && ff.name != "json-key-collision":
					// (two keys that unescape to one label: which stamp the map keeps depends on Go's map order, and one of the
					// two readings is the unchanged record — only the no-crash judge applies)
					// (an index-only load is never what a build runs on: cmd/dawn build and watch load with index=false, and
					// indexTarget.upToDate is constantly true by design, so with PreferIndex only the crash judge applies)
					// nothing ran: legitimate only if the file still says what it said
					same := ff.kind == "content" && dawn.VerifSameRecord(snap[ff.file], ff.content, strings.HasSuffix(ff.file, "%2Fdefault"), kindOfFile == "source") // as loadTargetInfo reads them; the requested root //:default has no dependent that would read its run counter
					if same {
						stats["recfile.semantically-unchanged"]++
					} else {
						violation("record-silently-up-to-date", ff.input(), "the "+kindOfFile+" record was changed ("+ff.name+") and nothing was re-executed or reported")
					}
				case res == "ok":
					stats["recfile.reexecuted"]++ // some target was evaluated again (`detail` lists them; a body ran iff executed > 0)
				}
				mu.Unlock()
			}
		}(dir)
	}
	for _, ff := range faults {
		ch <- ff
	}
	close(ch)
	wg.Wait()
}

// the clean, fully built state of a project: every file under .dawn/build (but temp)
func snapshotBuild(dir0 string) map[string][]byte {
	snap := map[string][]byte{}
	root := filepath.Join(dir0, ".dawn", "build")
	filepath.Walk(root, func(p string, info os.FileInfo, err error) error {
		if err == nil && !info.IsDir() {
			rel, _ := filepath.Rel(dir0, p)
			if !strings.HasPrefix(rel, filepath.Join(".dawn", "build", "temp")) {
				b, _ := os.ReadFile(p)
				snap[rel] = b
			}
		}
		return nil
	})
	return snap
}

// restoreBuild puts a worker's copy of the project back into that state
func restoreBuild(dir string, snap map[string][]byte) {
	os.RemoveAll(filepath.Join(dir, ".dawn"))
	for rel, b := range snap {
		os.MkdirAll(filepath.Dir(filepath.Join(dir, rel)), 0o755)
		os.WriteFile(filepath.Join(dir, rel), b, 0o644)
	}
	os.MkdirAll(filepath.Join(dir, ".dawn", "build", "temp"), 0o755)
	os.WriteFile(filepath.Join(dir, "out.txt"), []byte("source\n"), 0o644)
	os.Remove(filepath.Join(dir, "log.txt"))
}

// Several packages, and a Project that is used again: the function record of EACH package's target corrupted in turn,
// then (i) a fresh Load + Run, (ii) a Project loaded from the clean state that sees the record go bad: Reload, Reload,
// Targets, Run on the same Project. Every call must return (the child's watchdog reports a call that blocks).
func runMultiPackage(tier string, dir0 string, mk func(int) string, snap map[string][]byte) {
	type mcase struct {
		file    string
		content []byte
		name    string
		reuse   bool
	}
	var cases []mcase
	if replayFault != nil {
		c, _ := base64.StdEncoding.DecodeString(fmt.Sprint(replayFault["content"]))
		cases = append(cases, mcase{fmt.Sprint(replayFault["file"]), c, "replay", replayFault["reuse"] == true})
	} else {
		var files []string
		for f := range snap {
			if strings.Contains(f, "targets") {
				files = append(files, f)
			}
		}
		sort.Strings(files)
		for _, f := range files {
			var rec map[string]any
			if json.Unmarshal(snap[f], &rec) != nil {
				continue
			}
			with := func(stamp string) []byte {
				r2 := map[string]any{}
				for k, v := range rec {
					r2[k] = v
				}
				r2["stamp"] = stamp
				b, _ := json.Marshal(r2)
				return b
			}
			st, _ := rec["stamp"].(string)
			raw, _ := base64.StdEncoding.DecodeString(st)
			for _, c := range []mcase{
				{f, with("!!! not base64"), "stamp-not-base64", false},
				{f, with(base64.StdEncoding.EncodeToString(raw[:len(raw)/2])), "stamp-truncated", false},
				{f, with(base64.StdEncoding.EncodeToString([]byte{'K', 5, '.'})), "stamp-foreign-value", false},
				{f, []byte{}, "file-empty", false},
				{f, []byte("{"), "file-open-brace", false},
			} {
				cases = append(cases, c)
				c.reuse = true
				cases = append(cases, c)
			}
		}
	}
	var mu sync.Mutex
	var wg sync.WaitGroup
	ch := make(chan mcase)
	for wk := 0; wk < 8; wk++ {
		dir := mk(200 + wk)
		wg.Add(1)
		go func(dir string) {
			defer wg.Done()
			for c := range ch {
				if tooManyFatal() && replayFault == nil {
					mu.Lock()
					stats["recmulti.skipped-after-fatal-cases"]++
					mu.Unlock()
					continue
				}
				restoreBuild(dir, snap)
				if c.reuse {
					os.WriteFile(filepath.Join(dir, c.file+".fault"), c.content, 0o644)
				} else {
					os.WriteFile(filepath.Join(dir, c.file), c.content, 0o644)
				}
				res, detail := runChildPR(dir, false, c.reuse)
				executed := logLines(dir)
				mu.Lock()
				mode := "fresh"
				if c.reuse {
					mode = "reused-project"
				}
				stats["recmulti.cases"]++
				stats["recmulti."+mode+"."+res]++
				input := map[string]any{"stream": "recmulti", "file": c.file, "name": c.name, "reuse": c.reuse,
					"content": base64.StdEncoding.EncodeToString(c.content)}
				switch {
				case res == "crash" || res == "hang" || res == "spawn-failed":
					violation("record-"+res, input, "a corrupted record ("+c.name+" on "+c.file+", "+mode+"): "+detail)
				case res == "ok" && executed == 0 && detail == "":
					violation("record-silently-up-to-date", input, "the record was changed ("+c.name+") and nothing was re-executed or reported")
				}
				mu.Unlock()
			}
		}(dir)
	}
	for _, c := range cases {
		ch <- c
	}
	close(ch)
	wg.Wait()
}

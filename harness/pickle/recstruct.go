// Structure-level mutations of a genuine stamp for the record-level stream of C15: the stamp stays a VALID pickle, of an
// environment of a different shape (byte flips almost never achieve that).
//  A. opcode splices: at every op boundary insert a snippet that edits the value under construction (SETITEMS of an
//     unknown key, APPEND, ADDITEMS, a stray MEMOIZE …) — after a NEWOBJ the top of the stack is what dawn's envUnpickler
//     built, so this is how an unknown key gets into the top-level / function-code dict.
//  B. tree mutations: decode the stamp with a structure-preserving unpickler (host objects kept as (module, name, args)),
//     mutate the value tree (drop / duplicate / swap an element, replace it by None / int / str / list / tuple / dict,
//     add an entry to a dict or association list, rename a key, rename a host object to each other dawn name, wrap the
//     root in a tuple) and re-encode with the real encoder.
package main

import (
	"encoding/base64"
	"math"
	"math/big"
	"strings"
)

// offsets at which an op starts (and len(bs) if the stream parses to its end)
func opBoundaries(bs []byte) []int {
	var out []int
	i := 0
	for i < len(bs) {
		out = append(out, i)
		op := bs[i]
		i++
		switch op {
		case 'h', 'K':
			i++
		case 'M':
			i += 2
		case 'j', 'J':
			i += 4
		case 'G':
			i += 8
		case 'I':
			for i < len(bs) && bs[i] != '\n' {
				i++
			}
			i++
		case 0x8c, 'C':
			if i >= len(bs) {
				return out
			}
			i += 1 + int(bs[i])
		case 'X', 'B':
			if i+4 > len(bs) {
				return out
			}
			i += 4 + (int(bs[i]) | int(bs[i+1])<<8 | int(bs[i+2])<<16 | int(bs[i+3])<<24)
		case '.':
			return out
		}
	}
	return out
}

var splices = [][]byte{
	{'(', 0x8c, 3, 'z', 'z', 'z', 'N', 'u'},                        // d["zzz"] = None
	{'(', 0x8c, 3, 'z', 'z', 'z', 0x8c, 1, 'v', 0x8c, 1, 'w', 'K', 5, 'u'}, // two unknown keys
	{'(', 0x8c, 4, 'c', 'o', 'd', 'e', 'N', 'u'},                   // a known key overwritten
	{'(', 0x8c, 5, 'n', 'a', 'm', 'e', 's', 'K', 1, 'u'},
	{'(', 'u'},                                                     // SETITEMS of nothing
	{'N', 'a'},                                                     // append None
	{'(', 'N', 0x90},                                               // add None to a set
	{0x94},                                                         // a stray MEMOIZE shifts every later memo id
	{'N', '0'},                                                     // (POP is not implemented: an error)
	{0x85},                                                         // wrap the top in a 1-tuple
}

func spliceMutants(orig []byte) [][]byte {
	var out [][]byte
	bounds := opBoundaries(orig)
	for _, b := range bounds[1:] {
		for _, sn := range splices {
			m := append(append(append([]byte{}, orig[:b]...), sn...), orig[b:]...)
			out = append(out, m)
		}
	}
	return out
}

// tree mutants of a canonical graph, re-encoded with the real encoder
func treeMutants(orig []byte) (out [][]byte, equalish [][]byte) {
	out0, x := goDecode(orig, "h") // structure preserving: host objects stay (module, name, args)
	if !strings.HasPrefix(out0, "ok ") {
		return nil, nil
	}
	g0, err := safeDump(x, dumpLimit)
	if err != nil {
		return nil, nil
	}
	text := g0.String()
	same := false // the mutant under construction should be Starlark-equal to the original
	emit := func(mut func(g *graph) bool) {
		g, err := parseGraph(text) // a fresh copy
		if err != nil || !mut(g) {
			return
		}
		y, err := g.build()
		if err != nil {
			return
		}
		if bs, _ := goEncode(y, true); bs != nil {
			if same {
				equalish = append(equalish, bs)
			} else {
				out = append(out, bs)
			}
		}
	}
	repl := func(g *graph, k int) val {
		switch k {
		case 0:
			return val{k: 'N'}
		case 1:
			return val{k: 'i', i: big.NewInt(7)}
		case 2:
			return vs("zzz")
		case 3:
			return g.add(obj{k: 'L'})
		case 4:
			return g.add(obj{k: 'T', xs: []val{vi(1)}})
		case 5:
			return g.add(obj{k: 'D', xs: []val{vs("k"), vi(1)}})
		}
		return g.add(obj{k: 'T'})
	}
	dawnNames := []string{"Target", "Builtin", "Recursive", "Mandatory", "FunctionCode", "Function", "Nope"}
	for a := range g0.heap {
		a := a
		o := g0.heap[a]
		step := 1
		if o.k == 'D' {
			step = 2
		}
		if o.k == 'H' {
			for _, nm := range dawnNames {
				nm := nm
				if nm != o.n {
					emit(func(g *graph) bool { g.heap[a].n = nm; return true })
				}
			}
			emit(func(g *graph) bool { g.heap[a].m = "dusk"; return true })
			continue
		}
		for j := 0; j < len(o.xs); j += step {
			j := j
			for k := 0; k < 7; k++ {
				k := k
				emit(func(g *graph) bool { // a value (for dicts: the value of the entry) replaced by another type
					g.heap[a].xs[j+step-1] = repl(g, k)
					return true
				})
			}
			emit(func(g *graph) bool { // the element / entry removed
				xs := g.heap[a].xs
				g.heap[a].xs = append(append([]val{}, xs[:j]...), xs[j+step:]...)
				return true
			})
			emit(func(g *graph) bool { // duplicated
				xs := g.heap[a].xs
				g.heap[a].xs = append(append(append([]val{}, xs[:j+step]...), xs[j:j+step]...), xs[j+step:]...)
				return true
			})
			if v := o.xs[j+step-1]; v.k == 'i' && v.i.IsInt64() && v.i.Int64() > -1<<50 && v.i.Int64() < 1<<50 {
				same = true
				emit(func(g *graph) bool { // 1 recorded as 1.0: an equal environment, a different encoding
					g.heap[a].xs[j+step-1] = vf(math.Float64bits(float64(v.i.Int64())))
					return true
				})
				same = false
			} else if v.k == 'f' {
				if f := math.Float64frombits(v.f); f == math.Trunc(f) && math.Abs(f) < 1e15 {
					same = true
					emit(func(g *graph) bool { g.heap[a].xs[j+step-1] = vi(int64(f)); return true })
					same = false
				}
			}
			if j+2*step <= len(o.xs) {
				same = o.k == 'D' // a dict with its entries in another order is an equal dict
				emit(func(g *graph) bool { // swapped with the next one
					xs := g.heap[a].xs
					for t := 0; t < step; t++ {
						xs[j+t], xs[j+step+t] = xs[j+step+t], xs[j+t]
					}
					return true
				})
				same = false
			}
			if o.xs[j].k == 's' { // a key (of a dict, or of an association-list pair) renamed
				emit(func(g *graph) bool { g.heap[a].xs[j] = vs("zzz"); return true })
			}
		}
		emit(func(g *graph) bool { // an entry added: to a dict; to a tuple, a ("zzz", None) pair (an association-list entry)
			if g.heap[a].k == 'D' {
				g.heap[a].xs = append(g.heap[a].xs, vs("zzz"), val{k: 'N'})
			} else {
				g.heap[a].xs = append(g.heap[a].xs, g.add(obj{k: 'T', xs: []val{vs("zzz"), {k: 'N'}}}))
			}
			return true
		})
	}
	emit(func(g *graph) bool { g.root = g.add(obj{k: 'T', xs: []val{g.root}}); return true })
	emit(func(g *graph) bool { g.root = g.add(obj{k: 'L', xs: []val{g.root, g.root}}); return true })
	return out, equalish
}

// the same value tree written with other opcodes: every op that has a longer form rewritten to it (all at once, and one at
// a time): SHORT_BINUNICODE -> BINUNICODE, SHORT_BINBYTES -> BINBYTES, BINGET -> LONG_BINGET, BININT1 / BININT2 -> BININT and INT
func longFormMutants(orig []byte) [][]byte {
	bounds := opBoundaries(orig)
	long := func(i int) []byte { // the op starting at bounds[i] in its long form, or nil
		b := bounds[i]
		switch orig[b] {
		case 0x8c, 'C':
			op := byte('X')
			if orig[b] == 'C' {
				op = 'B'
			}
			n := int(orig[b+1])
			return append(append([]byte{op}, le32(n)...), orig[b+2:b+2+n]...)
		case 'h':
			return append([]byte{'j'}, le32(int(orig[b+1]))...)
		case 'K':
			return append([]byte{'J'}, le32(int(orig[b+1]))...)
		case 'M':
			return append([]byte{'J'}, le32(int(orig[b+1])|int(orig[b+2])<<8)...)
		}
		return nil
	}
	end := func(i int) int {
		if i+1 < len(bounds) {
			return bounds[i+1]
		}
		return len(orig)
	}
	var out [][]byte
	var all []byte
	for i := range bounds {
		if end(i) > len(orig) {
			return out
		}
		l := long(i)
		if l == nil {
			all = append(all, orig[bounds[i]:end(i)]...)
			continue
		}
		all = append(all, l...)
		out = append(out, append(append(append([]byte{}, orig[:bounds[i]]...), l...), orig[end(i):]...))
		if orig[bounds[i]] == 'K' { // and as decimal text
			t := append([]byte{'I'}, []byte(big.NewInt(int64(orig[bounds[i]+1])).String())...)
			out = append(out, append(append(append([]byte{}, orig[:bounds[i]]...), append(t, '\n')...), orig[end(i):]...))
		}
	}
	return append(out, all)
}

func deletionMutants(orig []byte) [][]byte {
	var out [][]byte
	for p := range orig {
		out = append(out, append(append([]byte{}, orig[:p]...), orig[p+1:]...))
	}
	return out
}

// structureCases: which mutants go to a child process. Everything that still decodes (with dawn's envUnpickler) to a
// DIFFERENT environment is what matters; of those that no longer decode, or decode to the same environment, a sample.
func structureCases(r *rng, orig []byte, origDump string, tier string) []recCase {
	var first, rest []recCase
	consider := func(m []byte, kind string, priority bool) {
		if !declaredOK(m) {
			return
		}
		d := envDump(m)
		cls := strings.SplitN(d, " ", 2)[0]
		stats["rec.structure."+kind+".decodes-"+cls]++
		c := recCase{kind: kind, raw: m, stamp: base64.StdEncoding.EncodeToString(m)}
		switch {
		case cls == "ok" && (d != origDump || priority): // (a priority mutant that decodes to the SAME dump: same value, other bytes)
			if priority {
				first = append(first, c)
			} else {
				rest = append(rest, c)
			}
		case r.chance(1, 25):
			rest = append(rest, c)
		}
	}
	sp := spliceMutants(orig)
	tail := 3 * len(splices) // the splices at the last three op boundaries: on top of what the whole stamp built
	for i, m := range sp {
		consider(m, "splice", i >= len(sp)-tail)
	}
	tm, equalish := treeMutants(orig)
	for _, m := range tm {
		consider(m, "tree", false)
	}
	// the same environment in another encoding (or one that Starlark compares equal): every one that still decodes
	for _, m := range equalish {
		consider(m, "reencoded-equal", true)
	}
	for _, m := range longFormMutants(orig) {
		consider(m, "reencoded-long", true)
	}
	for _, m := range deletionMutants(orig) { // e.g. a lost MEMOIZE of a value that is never fetched again
		consider(m, "byte-deleted", true)
	}
	limit := 90
	if tier == "thorough" {
		limit = len(rest)
	}
	for len(rest) > limit {
		k := r.below(len(rest))
		rest = append(rest[:k], rest[k+1:]...)
	}
	stats["rec.structure.child-cases"] = len(first) + len(rest)
	return append(first, rest...)
}

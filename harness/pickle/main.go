// Correspondence + judge harness for C07 / C15 (package pickle). Built INTO the repo's module with `go build -overlay`
// as github.com/pgavlin/dawn/cmd/verif_pickle; not part of /repo.
//
// Output, one record per line, tab separated:
//   C <stream> <driver input> <Go's canonical answer>     correspondence pair (tie 2)
//   V <json>                                             the property's own predicate failed on the implementation
//   S <json>                                             statistics of this run
package main

import (
	"bufio"
	"bytes"
	"encoding/hex"
	"encoding/json"
	"flag"
	"fmt"
	"os"
	"runtime/debug"
	"strings"
	"time"

	"github.com/pgavlin/dawn"
	"github.com/pgavlin/dawn/pickle"
	"go.starlark.net/starlark"
)

const dumpLimit = 400000

var (
	w     *bufio.Writer
	stats = map[string]int{}
)

func hexb(b []byte) string {
	if len(b) == 0 {
		return "-"
	}
	return hex.EncodeToString(b)
}

func pair(stream, in, out string) {
	fmt.Fprintf(w, "C\t%s\t%s\t%s\n", stream, in, out)
	stats["pairs."+stream]++
}

func violation(kind string, input map[string]any, detail string) {
	j, _ := json.Marshal(map[string]any{"kind": kind, "input": input, "detail": detail})
	fmt.Fprintf(w, "V\t%s\n", j)
	stats["violations."+kind]++
}

// run f under recover and a watchdog
func guarded(f func()) (panicked any, hung bool) { return guardedFor(5*time.Second, f) }

func guardedFor(limit time.Duration, f func()) (panicked any, hung bool) {
	done := make(chan any, 1)
	go func() {
		defer func() { done <- recover() }()
		f()
	}()
	select {
	case p := <-done:
		return p, false
	case <-time.After(limit):
		hungFlag = true // the goroutine keeps running: this process is abandoned after the case has been reported
		return nil, true
	}
}

func goEncode(x starlark.Value, pickler bool) ([]byte, string) {
	var buf bytes.Buffer
	var err error
	p, hung := guardedFor(10*time.Second, func() {
		var pk pickle.Pickler
		if pickler {
			pk = pickle.PicklerFunc(testPickler)
		}
		err = pickle.NewEncoder(&buf, pk).Encode(x)
	})
	switch {
	case hung:
		return nil, "hang"
	case p != nil:
		return nil, "panic"
	case err != nil:
		return nil, "err"
	}
	return buf.Bytes(), "ok " + hexb(buf.Bytes())
}

// outcome classes of Decode: ok <canonical graph> | err | nil | panic | hang | skip (result too big to print)
func goDecode(bs []byte, host string) (string, starlark.Value) {
	var x starlark.Value
	var err error
	p, hung := guarded(func() {
		var u pickle.Unpickler
		switch host {
		case "h":
			u = testUnpickler(false)
		case "H":
			u = testUnpickler(true)
		case "E": // dawn's own unpickler for function environments (model: envHost in Dawn/Model/Pickle.lean)
			u = pickle.UnpicklerFunc(dawn.VerifEnvUnpickler)
		}
		x, err = pickle.NewDecoder(bytes.NewReader(bs), u).Decode()
	})
	switch {
	case hung:
		return "hang", nil
	case p != nil:
		return "panic", nil
	case err != nil:
		return "err", nil
	case x == nil:
		return "nil", nil
	}
	if p := wellFormed(x); p != "" {
		return "illformed " + p, x
	}
	g, derr := safeDump(x, dumpLimit)
	if derr == errTooBig {
		return "skip", x
	}
	if derr != nil {
		return "illformed " + derr.Error(), x
	}
	return "ok " + g.String(), x
}

// C15's precondition: every declared 4-byte length is at most the size of the input. Op boundaries do not depend on
// the decoder's state, so a linear scan decides it.
func declaredOK(bs []byte) bool {
	i := 0
	for i < len(bs) {
		op := bs[i]
		i++
		switch op {
		case 'h', 'K':
			i++
		case 'M':
			i += 2
		case 'j', 'J':
			i += 4
		case 'G':
			i += 8
		case 'I':
			for i < len(bs) && bs[i] != '\n' {
				i++
			}
			i++
		case 0x8c, 'C':
			if i >= len(bs) {
				return true
			}
			i += 1 + int(bs[i])
		case 'X', 'B':
			if i+4 > len(bs) {
				return true
			}
			l := int(bs[i]) | int(bs[i+1])<<8 | int(bs[i+2])<<16 | int(bs[i+3])<<24
			if l > len(bs) {
				return false
			}
			i += 4 + l
		case '.':
			return true
		}
	}
	return true
}

// ---- C07: enc / dec correspondence and the round-trip judge for one graph
func doGraph(gc gcase, pickler bool) []byte {
	x, err := gc.g.build()
	if err != nil {
		stats["gen.unbuildable"]++
		return nil
	}
	cg, err := dump(x, dumpLimit)
	if err != nil {
		stats["gen.toobig"]++
		return nil
	}
	text := cg.String()
	stats["class."+gc.class]++
	stats["graphs"]++
	stats[fmt.Sprintf("heap.%s", bucket(len(cg.heap)))]++
	pf := "p"
	if !pickler {
		pf = "n"
	}
	input := map[string]any{"stream": "rt", "graph": text, "pickler": pf}
	announce(input)
	bs, out := goEncode(x, pickler)
	pair("enc", "enc "+pf+" "+text, out)
	if bs == nil {
		if pickler {
			violation("encode-"+out, input, "Encode did not succeed on an encodable value")
		}
		return nil
	}
	dout, _ := goDecode(bs, "h")
	pair("dec", "dec h "+hexb(bs), dout)
	stats["rt.judged"]++
	if dout != "ok "+text {
		d := dout
		if len(d) > 300 {
			d = d[:300] + "..."
		}
		violation("roundtrip/"+gc.class, input, "decode(encode(v)) is not v: "+d)
	}
	return bs
}

func bucket(n int) string {
	switch {
	case n == 0:
		return "0"
	case n <= 3:
		return "1-3"
	case n <= 10:
		return "4-10"
	case n <= 100:
		return "11-100"
	case n <= 1000:
		return "101-1000"
	}
	return ">1000"
}

// ---- C15: one byte string
func doBytes(stream string, bs []byte, host string, judged bool) {
	if !declaredOK(bs) {
		stats["c15.outside-precondition"]++
		return
	}
	input := map[string]any{"stream": "dec", "host": host, "bytes": hexb(bs)}
	announce(input)
	out, _ := goDecode(bs, host)
	cls := strings.SplitN(out, " ", 2)[0]
	stats["outcome."+stream+"."+cls]++
	if out == "skip" {
		return
	}
	pair(stream, "dec "+host+" "+hexb(bs), out)
	if judged {
		stats["c15.judged"]++
		if cls != "ok" && cls != "err" {
			d := out
			if len(d) > 300 {
				d = d[:300]
			}
			violation("decode-"+cls, input, "Decode returned neither a well-formed value nor an error: "+d)
		}
	}
}

// like declaredOK, for an input that several Decode calls read: the scan goes on after a STOP (a failed op that is not
// cut short by the end of the input leaves the reader at the next op boundary, so the boundaries are the same)
func declaredOKAll(bs []byte) bool {
	for len(bs) > 0 {
		if !declaredOK(bs) {
			return false
		}
		i := bytes.IndexByte(bs, '.') // an over-approximation of where the scan of declaredOK stopped: good enough, since
		if i < 0 {                    // a '.' inside a payload only makes the rest be scanned from a shifted offset too
			return true
		}
		bs = bs[i+1:]
	}
	return true
}

// ---- C15: ONE Decoder called again and again, after failures and after successes
func doReuse(stream string, bs []byte, host string, calls int) {
	if !declaredOKAll(bs) {
		stats["c15.outside-precondition"]++
		return
	}
	input := map[string]any{"stream": "decn", "host": host, "bytes": hexb(bs), "calls": calls}
	announce(input)
	var u pickle.Unpickler
	switch host {
	case "h":
		u = testUnpickler(false)
	case "H":
		u = testUnpickler(true)
	}
	dec := pickle.NewDecoder(bytes.NewReader(bs), u)
	var outs []string
	skip := false
	for i := 0; i < calls; i++ {
		var x starlark.Value
		var err error
		p, hung := guarded(func() { x, err = dec.Decode() })
		out := ""
		switch {
		case hung:
			out = "hang"
		case p != nil:
			out = "panic"
		case err != nil:
			out = "err"
		case x == nil:
			out = "nil"
		default:
			if pr := wellFormed(x); pr != "" {
				out = "illformed " + pr
			} else if g, derr := safeDump(x, dumpLimit); derr == errTooBig {
				skip = true
			} else if derr != nil {
				out = "illformed " + derr.Error()
			} else {
				out = "ok " + g.String()
			}
		}
		cls := strings.SplitN(out, " ", 2)[0]
		stats[fmt.Sprintf("reuse.call%d.%s", i, cls)]++
		stats["c15.judged"]++
		if !skip && cls != "ok" && cls != "err" && host != "H" {
			violation("decode-again-"+cls, input, fmt.Sprintf(
				"call %d of %d on one Decoder returned neither a well-formed value nor an error: %.200s (earlier calls: %.200s)",
				i, calls, out, strings.Join(outs, " ## ")))
		}
		outs = append(outs, out)
		if hung {
			break
		}
	}
	stats["reuse.cases"]++
	if !skip && !hungFlag {
		pair(stream, fmt.Sprintf("decn %s %d %s", host, calls, hexb(bs)), strings.Join(outs, " ## "))
	}
}

func runC07(r *rng, tier string) {
	cases := directed(tier)
	nrand := 6000
	if tier == "thorough" {
		nrand = 400000
	}
	for i := 0; i < nrand; i++ {
		cases = append(cases, gcase{r.randomGraph(), "random"})
	}
	if tier == "thorough" {
		wfaultMaxWrites = 120
	}
	nmulti := nrand / 4
	for i := 0; i < nmulti; i++ {
		cases = append(cases, gcase{r.randomGraphK(2 + r.below(3)), "random-stream"})
	}
	for i, gc := range cases {
		gc := gc
		runCase(func() { doGraph(gc, true) })
		if i%97 == 0 { // the same value with no Pickler installed: an error iff it contains a host object
			runCase(func() { doGraph(gc, false) })
		}
		// a tuple of 2+ values doubles as a stream: its elements through ONE Encoder, read back by ONE Decoder
		runCase(func() { doStream(gc) })
		if gc.class != "random" || i%40 == 0 { // a writer failing its k-th Write, for every k
			runCase(func() { doFaultyWrites(gc) })
		}
	}
	statefulCases()
	// exhaustive: every BININT2 payload, through Decode and through the round trip of the integer it should denote
	for n := 0; n < 65536; n++ {
		n := n
		runCase(func() {
			bs := []byte{'M', byte(n), byte(n >> 8), '.'}
			input := map[string]any{"stream": "rt", "graph": fmt.Sprintf("i%d|", n), "pickler": "p"}
			announce(input)
			out, _ := goDecode(bs, "n")
			pair("dec.binint2", "dec n "+hexb(bs), out)
			stats["rt.judged"]++
			if out != fmt.Sprintf("ok i%d|", n) {
				violation("roundtrip/binint2", input, fmt.Sprintf("the encoding of %d decodes to %s", n, out))
			}
		})
	}
	twoOps()
}

// exhaustive: all programs of two implemented opcodes (each with a small fixed payload) followed by STOP
func twoOps() {
	payload := func(op byte) [][]byte {
		switch op {
		case 'h', 'K':
			return [][]byte{{op, 0}, {op, 1}}
		case 'j':
			return [][]byte{{op, 0, 0, 0, 0}, {op, 0, 1, 0, 0}}
		case 'M':
			return [][]byte{{op, 1, 2}}
		case 'J':
			return [][]byte{{op, 0xff, 0xff, 0xff, 0xff}}
		case 'G':
			return [][]byte{{op, 0, 0, 0, 0, 0, 0, 0xf0, 0x3f}}
		case 'I':
			return [][]byte{{op, '7', '\n'}, {op, '\n'}}
		case 0x8c, 'C':
			return [][]byte{{op, 1, 'a'}, {op, 0}}
		case 'X', 'B':
			return [][]byte{{op, 1, 0, 0, 0, 'a'}}
		}
		return [][]byte{{op}}
	}
	for _, a := range implemented {
		for _, pa := range payload(a) {
			for _, b := range implemented {
				for _, pb := range payload(b) {
					bs := append(append(append([]byte{}, pa...), pb...), '.')
					runCase(func() { doBytes("dec.twoops", bs, "h", true) })
				}
			}
		}
	}
}

func runC15(r *rng, tier string) {
	nrand, nsoup, nmut := 1500, 60000, 6
	if tier == "thorough" {
		nrand, nsoup, nmut = 30000, 1500000, 10
	}
	cases := directed("quick")
	for i := 0; i < nrand; i++ {
		cases = append(cases, gcase{r.randomGraph(), "random"})
	}
	for _, gc := range cases {
		x, err := gc.g.build()
		if err != nil {
			continue
		}
		bs, _ := goEncode(x, true)
		if bs == nil {
			continue
		}
		stats["c15.seeds"]++
		k := nmut
		if len(bs) > 3000 {
			k = 1
		}
		for j := 0; j < k; j++ {
			m := r.mutate(bs)
			if j%3 == 2 {
				m = r.mutate(m)
			}
			runCase(func() { doBytes("dec.mutated", m, "h", true) })
			if j == 0 && len(bs) <= 3000 { // the same Decoder called again after what this input makes of the first call; and two inputs in a row
				calls := 2 + r.below(3)
				m2 := append(append([]byte{}, m...), bs...)
				runCase(func() { doReuse("decn.mutated", m, "h", calls) })
				runCase(func() { doReuse("decn.concat", m2, "h", calls) })
			}
		}
		if len(bs) <= 450 { // every truncation of a short record (incl. the 200-digit integers: INT text cut anywhere)
			for n := 0; n < len(bs); n++ {
				n := n
				runCase(func() { doBytes("dec.truncated", bs[:n], "h", true) })
				if n%41 == 2 {
					runCase(func() { doReuse("decn.truncated", bs[:n], "h", 3) })
				}
			}
		}
	}
	for i := 0; i < nsoup; i++ {
		s := r.soup()
		if i%3 != 0 {
			s = r.soup2()
		}
		switch i % 10 {
		case 0:
			runCase(func() { doBytes("dec.soup-nohost", s, "n", true) })
		case 1: // a host that panics with a non-error value: compared with the model's recover semantics, not judged
			runCase(func() { doBytes("dec.soup-badhost", s, "H", false) })
		default:
			runCase(func() { doBytes("dec.soup", s, "h", true) })
		}
		if i%16 == 0 {
			calls := 2 + r.below(3)
			hosts := []string{"h", "h", "n", "H"}
			host := hosts[r.below(4)]
			s2 := append(append([]byte{}, s...), r.soup2()...)
			runCase(func() { doReuse("decn.soup", s2, host, calls) })
		}
	}
	twoOps()
	runLabels(r, tier)
	marker()
	runRecords(r, tier)
}

func replay(in string) {
	var c map[string]any
	if err := json.Unmarshal([]byte(in), &c); err != nil {
		fmt.Fprintln(os.Stderr, "bad replay input:", err)
		os.Exit(2)
	}
	switch c["stream"] {
	case "rt":
		g, err := parseGraph(c["graph"].(string))
		if err != nil {
			fmt.Fprintln(os.Stderr, "bad graph:", err)
			os.Exit(2)
		}
		runCase(func() { doGraph(gcase{g, "replay"}, c["pickler"] != "n") })
	case "dec":
		bs, _ := hex.DecodeString(c["bytes"].(string))
		runCase(func() { doBytes("dec.replay", bs, c["host"].(string), true) })
	case "label":
		b, _ := hex.DecodeString(c["hex"].(string))
		runCase(func() { labelCase(string(b)) })
	case "decn":
		bs, _ := hex.DecodeString(c["bytes"].(string))
		runCase(func() { doReuse("decn.replay", bs, c["host"].(string), int(c["calls"].(float64))) })
	case "rts":
		// the elements of the stream as one tuple: doStream takes it apart again
		t := c["graph"].(string)
		bar := strings.Index(t, "|")
		rs := strings.Split(t[:bar], "&")
		objs := t[bar+1:]
		n := 0
		if objs != "" {
			n = strings.Count(objs, ";") + 1
			objs += ";"
		}
		g, err := parseGraph(fmt.Sprintf("r%d|%sT:%s", n, objs, strings.Join(rs, ",")))
		if err != nil {
			fmt.Fprintln(os.Stderr, "bad graph:", err)
			os.Exit(2)
		}
		runCase(func() { doStream(gcase{g, "replay"}) })
	case "wfault":
		g, err := parseGraph(c["graph"].(string))
		if err != nil {
			os.Exit(2)
		}
		runCase(func() { doFaultyWrites(gcase{g, "replay"}) })
	case "stateful":
		statefulCases()
	case "rec":
		replayRecord, _ = c["record"].(string)
		runRecords(&rng{s: 1}, "quick")
	case "recfile", "recmulti":
		replayFault = c
		runRecords(&rng{s: 1}, "quick")
	}
}

func main() {
	seed := flag.Uint64("seed", 1, "")
	tier := flag.String("tier", "quick", "")
	prop := flag.String("prop", "C07", "")
	rp := flag.String("replay", "", "")
	ch := flag.String("child", "", "")
	worker := flag.Bool("worker", false, "")
	flag.IntVar(&skipUntil, "skip", 0, "")
	flag.BoolVar(&careful, "careful", false, "")
	flag.BoolVar(&childPreferIndex, "prefer", false, "")
	flag.BoolVar(&childReuse, "reuse", false, "")
	flag.Parse()
	if *ch != "" {
		child(*ch)
		return
	}
	if !*worker {
		supervise(os.Args[1:])
		return
	}
	debug.SetMaxStack(32 << 20) // an endless recursion dies within milliseconds instead of eating a gigabyte first
	w = bufio.NewWriterSize(os.Stdout, 1<<20)
	defer w.Flush()
	if *rp != "" {
		replay(*rp)
	} else {
		r := &rng{s: *seed*2654435761 + 12345}
		if *prop == "C07" {
			runC07(r, *tier)
		} else {
			runC15(r, *tier)
		}
	}
	j, _ := json.Marshal(stats)
	fmt.Fprintf(w, "S\t%s\n", j)
}

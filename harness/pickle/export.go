// Overlaid INTO package pickle by the verification harness (never part of /repo): lets the harness recognise the
// decoder's two unexported sentinel types when they escape as values (DESIGN.md §4: an observation, not a violation).
package pickle

import "go.starlark.net/starlark"

// VerifIsMark reports whether v is the decoder's mark sentinel.
func VerifIsMark(v starlark.Value) bool { _, ok := v.(markT); return ok }

// VerifGlobal returns the fields of a *global sentinel and its identity.
func VerifGlobal(v starlark.Value) (id any, module, name string, ok bool) {
	g, ok := v.(*global)
	if !ok {
		return nil, "", "", false
	}
	return g, g.module, g.name, true
}

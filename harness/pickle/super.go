// Supervisor: the harness runs its cases in a worker process (itself, re-executed with -worker) so that a case that kills
// the process (unrecoverable Go stack overflow from an endless recursion in Encode, a fatal error, an out-of-memory kill)
// or hangs becomes a V record with that case as the replay, instead of a dead harness.
//
// Protocol on the worker's stdout: the usual C / V lines, plus
//   N <next case number> <stats json>    everything printed so far is complete; printed every 2000 cases (every case in
//                                        careful mode); the supervisor forwards C / V lines only when the next N arrives
//   P <case number> <input json>         careful mode only, flushed BEFORE the risky call of that case
//   S <stats json>                       normal end
// Worker dies in normal mode  -> its uncommitted lines are dropped and it is restarted in careful mode from the last N.
// Worker dies in careful mode -> the last P is the culprit: V record, restart in normal mode after that case.
// Worker exits with status 3  -> it has itself reported a hang (watchdog) and asks to be restarted after that case.
package main

import (
	"bufio"
	"bytes"
	"encoding/json"
	"fmt"
	"os"
	"os/exec"
	"strconv"
	"strings"
	"time"
)

var (
	caseNo    int
	curCase   int
	skipUntil int
	careful   bool
	hungFlag  bool
)

const maxFatalCases = 3 // after this many crashes/hangs the run stops: the check has failed, each costs seconds

func marker() {
	j, _ := json.Marshal(stats)
	fmt.Fprintf(w, "N\t%d\t%s\n", caseNo, j)
	w.Flush()
}

// runCase executes one case unless a previous worker already completed it
func runCase(f func()) {
	n := caseNo
	caseNo++
	if n < skipUntil {
		return
	}
	curCase = n
	f()
	if hungFlag { // a goroutine of this process is spinning (and possibly allocating): report and start afresh
		marker()
		os.Exit(3)
	}
	if careful || caseNo%2000 == 0 {
		marker()
	}
}

// announce is called right before the call that may kill the process
func announce(input map[string]any) {
	if careful {
		j, _ := json.Marshal(input)
		fmt.Fprintf(w, "P\t%d\t%s\n", curCase, j)
		w.Flush()
	}
}

func addStats(total map[string]int, part map[string]int) {
	for k, v := range part {
		total[k] += v
	}
}

func supervise(args []string) {
	out := bufio.NewWriterSize(os.Stdout, 1<<20)
	defer out.Flush()
	total := map[string]int{}
	skip, carefulMode, fatal := 0, false, 0
	for {
		a := append(append([]string{}, args...), "-worker", "-skip", strconv.Itoa(skip))
		if carefulMode {
			a = append(a, "-careful")
		}
		cmd := exec.Command(os.Args[0], a...)
		var errb bytes.Buffer
		cmd.Stderr = &errb
		pipe, err := cmd.StdoutPipe()
		if err != nil || cmd.Start() != nil {
			fmt.Fprintln(os.Stderr, "supervisor: cannot start the worker")
			os.Exit(1)
		}
		lines := make(chan string, 1024)
		go func() {
			sc := bufio.NewScanner(pipe)
			sc.Buffer(make([]byte, 1<<20), 1<<28)
			for sc.Scan() {
				lines <- sc.Text()
			}
			close(lines)
		}()
		var pending []string
		lastP, lastPNo := "", -1
		committed := map[string]int{}
		finished, timedOut := false, false
	read:
		for {
			select {
			case l, ok := <-lines:
				if !ok {
					break read
				}
				switch {
				case strings.HasPrefix(l, "N\t"):
					f := strings.SplitN(l, "\t", 3)
					skip, _ = strconv.Atoi(f[1])
					committed = map[string]int{}
					json.Unmarshal([]byte(f[2]), &committed)
					for _, p := range pending {
						out.WriteString(p)
						out.WriteByte('\n')
					}
					pending = pending[:0]
				case strings.HasPrefix(l, "P\t"):
					f := strings.SplitN(l, "\t", 3)
					lastPNo, _ = strconv.Atoi(f[1])
					lastP = f[2]
				case strings.HasPrefix(l, "S\t"):
					committed = map[string]int{}
					json.Unmarshal([]byte(l[2:]), &committed)
					finished = true
					for _, p := range pending {
						out.WriteString(p)
						out.WriteByte('\n')
					}
					pending = pending[:0]
				default:
					pending = append(pending, l)
				}
			case <-time.After(15 * time.Minute):
				cmd.Process.Kill()
				timedOut = true
				break read
			}
		}
		werr := cmd.Wait()
		addStats(total, committed)
		code := 0
		if ee, ok := werr.(*exec.ExitError); ok {
			code = ee.ExitCode()
		}
		if finished && werr == nil {
			break
		}
		detail := errb.String()
		if i := strings.Index(detail, "\n\n"); i > 0 { // the headline of a Go fatal error / panic, not the goroutine dump
			detail = detail[:i]
		}
		if len(detail) > 500 {
			detail = detail[:500]
		}
		if werr != nil {
			detail = werr.Error() + ": " + detail
		}
		if timedOut {
			detail = "no output for 15 minutes: " + detail
		}
		switch {
		case code == 3: // the worker reported a hang itself (V already committed) and wants a fresh process
			fatal++
			carefulMode = false
		case carefulMode && lastP != "" && lastPNo >= skip:
			var input map[string]any
			json.Unmarshal([]byte(lastP), &input)
			j, _ := json.Marshal(map[string]any{"kind": "crash", "input": input,
				"detail": "the process running this case died (Go fatal error, signal or resource exhaustion): " + detail})
			fmt.Fprintf(out, "V\t%s\n", j)
			total["violations.crash"]++
			fatal++
			skip = lastPNo + 1
			carefulMode = false
		case !carefulMode: // find the culprit: repeat from the last complete point, announcing every case
			carefulMode = true
		default: // died outside any case, twice: nothing to attribute it to
			fmt.Fprintln(os.Stderr, "supervisor: the worker died outside any case:", detail)
			total["supervisor.worker-died-outside-cases"]++
			j, _ := json.Marshal(total)
			fmt.Fprintf(out, "S\t%s\n", j)
			out.Flush()
			os.Exit(1)
		}
		if fatal >= maxFatalCases {
			total["supervisor.stopped-after-fatal-cases"] = fatal
			break
		}
	}
	j, _ := json.Marshal(total)
	fmt.Fprintf(out, "S\t%s\n", j)
}

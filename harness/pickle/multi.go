// C07, beyond one value through a fresh Encoder/Decoder pair:
//  * doStream     several values through ONE Encoder into one buffer, read back by ONE Decoder (both keep their memo
//                 across calls, so sharing across the values of a stream must survive): correspondence + judge
//  * doFaultyWrites  a writer that fails exactly its k-th Write (a transient error / quota), for every k: judge only
//  * statefulCases   a stateful host Pickler that answers ("rec", name, ()) for a value it is asked about a second time
//                 (i.e. one still in progress — the way dawn's environment pickler cuts recursion), which makes the
//                 encoder memoise one key twice: judge only (the model's pickler is stateless)
package main

import (
	"bytes"
	"errors"
	"fmt"
	"strings"
	"time"

	"github.com/pgavlin/dawn/pickle"
	"go.starlark.net/starlark"
)

// dumpMany: the canonical graph of several values with sharing across them: dump them as one tuple, drop the tuple
func dumpMany(xs []starlark.Value) (roots string, heap string, err error) {
	g, err := safeDump(starlark.Tuple(xs), dumpLimit)
	if err != nil {
		return "", "", err
	}
	top := g.heap[len(g.heap)-1]
	g.heap = g.heap[:len(g.heap)-1]
	var rs []string
	for _, v := range top.xs {
		rs = append(rs, v.String())
	}
	text := g.String()
	return strings.Join(rs, "&"), text[strings.Index(text, "|")+1:], nil
}

func doStream(gc gcase) {
	x, err := gc.g.build()
	if err != nil {
		return
	}
	vals, ok := x.(starlark.Tuple)
	if !ok || len(vals) < 2 {
		return
	}
	roots, heap, err := dumpMany(vals)
	if err != nil {
		return
	}
	text := roots + "|" + heap
	input := map[string]any{"stream": "rts", "graph": text}
	announce(input)
	stats["stream.cases"]++
	stats["stream.values."+bucket(len(vals))]++
	var buf bytes.Buffer
	var eerr error
	p, hung := guardedFor(10*time.Second, func() {
		enc := pickle.NewEncoder(&buf, pickle.PicklerFunc(testPickler))
		for _, v := range vals {
			if eerr = enc.Encode(v); eerr != nil {
				return
			}
		}
	})
	if hung || p != nil || eerr != nil {
		pair("encs", "encs p "+text, "err")
		violation("encode-stream", input, fmt.Sprintf("Encode failed on an encodable stream: hung=%v panic=%v err=%v", hung, p, eerr))
		return
	}
	pair("encs", "encs p "+text, "ok "+hexb(buf.Bytes()))
	// read back by one Decoder
	var ys []starlark.Value
	out := ""
	p, hung = guarded(func() {
		dec := pickle.NewDecoder(bytes.NewReader(buf.Bytes()), testUnpickler(false))
		for i := range vals {
			y, err := dec.Decode()
			if err != nil {
				out = fmt.Sprintf("err %d", i)
				return
			}
			if y == nil {
				out = fmt.Sprintf("nil %d", i)
				return
			}
			ys = append(ys, y)
		}
	})
	switch {
	case hung:
		out = "hang"
	case p != nil:
		out = "panic"
	case out == "":
		if r2, h2, err := dumpMany(ys); err != nil {
			out = "illformed " + err.Error()
		} else {
			out = "ok " + r2 + "|" + h2
		}
	}
	pair("decs", fmt.Sprintf("decs h %d %s", len(vals), hexb(buf.Bytes())), out)
	stats["rt.judged"]++
	if out != "ok "+text {
		d := out
		if len(d) > 300 {
			d = d[:300] + "..."
		}
		violation("roundtrip-stream/"+gc.class, input, "values written by one Encoder and read back by one Decoder are not the values written: "+d)
	}
}

// ---- a writer that fails once

var wfaultMaxWrites = 40 // quick; 400 in the thorough tier

type flakyWriter struct {
	buf    bytes.Buffer
	n      int // Write calls so far
	failAt int // the call that fails (-1: none)
	short  bool
}

func (w *flakyWriter) Write(b []byte) (int, error) {
	k := w.n
	w.n++
	if k == w.failAt {
		if w.short && len(b) > 1 {
			w.buf.Write(b[:len(b)/2])
			return len(b) / 2, errors.New("short write")
		}
		return 0, errors.New("transient write error")
	}
	return w.buf.Write(b)
}

// For every k: the k-th Write fails (the others succeed). Encode must report an error — or, if it reports success,
// what reached the writer must decode to the value.
func doFaultyWrites(gc gcase) {
	x, err := gc.g.build()
	if err != nil {
		return
	}
	cg, err := safeDump(x, dumpLimit)
	if err != nil {
		return
	}
	text := cg.String()
	count := &flakyWriter{failAt: -1}
	if pickle.NewEncoder(count, pickle.PicklerFunc(testPickler)).Encode(x) != nil {
		return
	}
	total := count.n
	if total > wfaultMaxWrites {
		return
	}
	for k := 0; k < total; k++ {
		for _, short := range []bool{false, true} {
			w := &flakyWriter{failAt: k, short: short}
			input := map[string]any{"stream": "wfault", "graph": text, "k": k, "short": short}
			announce(input)
			var eerr error
			p, hung := guarded(func() { eerr = pickle.NewEncoder(w, pickle.PicklerFunc(testPickler)).Encode(x) })
			stats["wfault.cases"]++
			switch {
			case hung || p != nil:
				violation("write-fault-panic", input, fmt.Sprintf("Encode with a failing writer: hung=%v panic=%v", hung, p))
			case eerr != nil:
				stats["wfault.error-reported"]++
			default:
				out, _ := goDecode(w.buf.Bytes(), "h")
				if out == "ok "+text {
					stats["wfault.success-and-intact"]++
				} else {
					violation("write-fault-swallowed", input, fmt.Sprintf(
						"write %d of %d failed, Encode returned nil, and what was written decodes to %.200s", k, total, out))
				}
			}
		}
	}
}

// ---- a stateful host pickler

type statefulPickler struct{ asked map[*hostObj]bool }

func (s *statefulPickler) Pickle(x starlark.Value) (string, string, starlark.Tuple, error) {
	h, ok := x.(*hostObj)
	if !ok {
		return "", "", nil, pickle.ErrCannotPickle
	}
	if s.asked[h] { // asked again before it was memoised: it is in progress, i.e. it reaches itself
		return "rec", h.name, starlark.Tuple{}, nil
	}
	s.asked[h] = true
	return h.module, h.name, h.args, nil
}

// values in which a host object reaches itself through its own arguments, followed by containers that are memoised
// afterwards and referenced again; `want` is what the decoder must produce (the recursive occurrence is the placeholder)
func statefulCases() {
	for variant := 0; variant < 6; variant++ {
		// h = Host("m", "Self", (inner,)) where inner holds h
		h := newHost("m", "Self", nil)
		ph := func() *hostObj { return newHost("rec", "Self", starlark.Tuple{}) }
		var inner, innerWant starlark.Value
		want := newHost("m", "Self", nil)
		switch variant % 3 {
		case 0:
			inner, innerWant = starlark.NewList([]starlark.Value{h}), starlark.NewList([]starlark.Value{ph()})
		case 1:
			p := ph()
			inner, innerWant = starlark.Tuple{h, starlark.MakeInt(1), h}, starlark.Tuple{p, starlark.MakeInt(1), p}
		default:
			d, dw := starlark.NewDict(1), starlark.NewDict(1)
			d.SetKey(starlark.String("me"), h)
			dw.SetKey(starlark.String("me"), ph())
			inner, innerWant = d, dw
		}
		h.args = starlark.Tuple{inner}
		want.args = starlark.Tuple{innerWant}
		c := starlark.NewList([]starlark.Value{starlark.String("c")})
		e := starlark.NewDict(1)
		e.SetKey(starlark.String("k"), c)
		var x, w starlark.Value
		if variant < 3 {
			x = starlark.Tuple{h, c, c, h, e, e}
			w = starlark.Tuple{want, c, c, want, e, e}
		} else {
			x = starlark.NewList([]starlark.Value{c, h, e, c, h, e})
			w = starlark.NewList([]starlark.Value{c, want, e, c, want, e})
		}
		wg, err := safeDump(w, dumpLimit)
		if err != nil {
			continue
		}
		variant := variant
		runCase(func() {
			input := map[string]any{"stream": "stateful", "variant": variant}
			announce(input)
			var buf bytes.Buffer
			var eerr error
			p, hung := guardedFor(10*time.Second, func() {
				eerr = pickle.NewEncoder(&buf, &statefulPickler{asked: map[*hostObj]bool{}}).Encode(x)
			})
			stats["stateful.cases"]++
			if hung || p != nil || eerr != nil {
				violation("stateful-encode", input, fmt.Sprintf("Encode with a stateful host pickler: hung=%v panic=%v err=%v", hung, p, eerr))
				return
			}
			out, _ := goDecode(buf.Bytes(), "h")
			if out != "ok "+wg.String() {
				violation("stateful-roundtrip", input, fmt.Sprintf(
					"a host pickler that answers a placeholder for an in-progress value makes the encoder memoise one key twice; "+
						"the value then decodes with the wrong sharing: want %.300s got %.300s", wg.String(), out))
			}
		})
	}
}

// Entry point of the C10/C11 harness. Built INTO the repo's module with `go build -overlay` as package
// github.com/pgavlin/dawn/cmd/verif_mvs; the harness proper is overlaid into internal/mvs (package mvs) so that
// it reaches the unexported resolver, querier and requirement types. Not part of /repo.
package main

import (
	"os"

	"github.com/pgavlin/dawn/internal/mvs"
)

func main() { os.Exit(mvs.VerifMain(os.Args[1:])) }

// Correspondence + judge harness for C10 / C11 (internal/mvs, third-party github.com/pgavlin/mvs).
// Overlaid into /repo/internal/mvs as package mvs by `go build -overlay` (so that the unexported resolver,
// querier, Reqs and get are reachable); cmd/verif_mvs/main.go calls VerifMain. Not part of /repo.
//
// The fake dialer / repository below has the shape of internal/mvs/repo_test.go: tags and branches point at
// revisions, FetchRevision writes a real dawn.toml into the destination directory, and the real Resolver
// downloads into a temporary cache directory and parses those files.
//
// Output, one record per line, tab separated:
//   C <stream> <driver input> <Go's canonical answer>     correspondence pair (tie 2)
//   V <json>                                             the property's own predicate failed on the implementation
//   S <json>                                             statistics of this run
package mvs

import (
	"bufio"
	"context"
	"encoding/json"
	"errors"
	"flag"
	"fmt"
	"iter"
	"os"
	"path"
	"path/filepath"
	"slices"
	"sort"
	"strconv"
	"strings"
	"sync"
	"sync/atomic"
	"time"

	"github.com/pgavlin/dawn/internal/project"
	"github.com/pgavlin/dawn/internal/vcs"
	tmvs "github.com/pgavlin/mvs"
	"golang.org/x/mod/module"
	"golang.org/x/mod/semver"
)

// ------------------------------------------------------------------------------------------------ PRNG

type vRng struct{ s uint64 }

func (r *vRng) next() uint64 {
	r.s += 0x9E3779B97F4A7C15
	z := r.s
	z = (z ^ (z >> 30)) * 0xBF58476D1CE4E5B9
	z = (z ^ (z >> 27)) * 0x94D049BB133111EB
	return z ^ (z >> 31)
}
func (r *vRng) below(n int) int { return int(r.next() % uint64(n)) }
func (r *vRng) chance(num, den int) bool { return r.below(den) < num }
func vPick[T any](r *vRng, xs []T) T { return xs[r.below(len(xs))] }

// ------------------------------------------------------------------------------------------------ universe

type VMod struct {
	Path    string `json:"path"`
	Version string `json:"version"`
}

// VNode: one tagged version of one project directory of the repository. Node i is tagged `<base>/<version>`
// at revision i+1; a revision is a snapshot of every project directory as of the latest node of that
// directory at or before it.
type VNode struct {
	Base    string `json:"base"`
	Version string `json:"version"`
	Name    string `json:"name"`
	Reqs    []VMod `json:"reqs"`
}

// VPseudo: a module at a pseudo-version, i.e. project directory Base as of revision Rev (1-based). What it declares
// is, by intention, what that directory's dawn.toml says at that revision (u.snapshot(Rev, Base)).
type VPseudo struct {
	Base    string `json:"base"`
	Version string `json:"version"`
	Rev     int    `json:"rev"`
}

// VTag: a further tag `<base>/<tag>` of the repository that is NOT a canonical version (short form vX.Y, build metadata
// vX.Y.Z+meta) but compares equal to a canonical one; it points at revision Rev, where the directory says something
// else. A requirement is always at a canonical version, so such a tag is never what a requirement names: the universe
// (model, reference) does not contain it.
type VTag struct {
	Base string `json:"base"`
	Tag  string `json:"tag"`
	Rev  int    `json:"rev"`
}

type VUniverse struct {
	Repo       string         `json:"repo"`
	Nodes      []VNode        `json:"nodes"`
	Pseudo     []VPseudo      `json:"pseudo,omitempty"`
	ExtraTags  []VTag         `json:"extra_tags,omitempty"`
	// MoreTags: further CANONICAL version tags on revisions that already carry one: a second tag of the same project
	// (v1.0.0-rc.1 next to v1.0.0) or a tag of a sibling project. Each is a version of the universe; what it declares is
	// what its directory says at that revision.
	MoreTags []VPseudo `json:"more_tags,omitempty"`
	Refs       map[string]int `json:"refs"` // branch → revision number (1-based)
	DefaultRef string         `json:"default_ref"`
}

type VCase struct {
	Prop  string          `json:"prop"`
	U     VUniverse       `json:"universe"`
	Root  map[string]VMod `json:"root"`
	Ops   []string        `json:"ops"`
	Cache string          `json:"cache"` // cold | disk | mem
	Perm  uint64          `json:"perm"`  // seed of the declaration-order permutation (0 = as listed)
	// Spell: seed of the non-canonical spellings of requirement paths in the dawn.toml files, the root's included
	// (0 = every path written in its clean form)
	Spell uint64 `json:"spell,omitempty"`
	// Legacy: seed of the fetched trees that also ship a `.dawnconfig` with other requirements (0 = none)
	Legacy uint64 `json:"legacy,omitempty"`
	// OtherRoots: further root requirement sets resolved over the same universe with the SAME resolver (C10)
	OtherRoots []map[string]VMod `json:"other_roots,omitempty"`
}

func (u *VUniverse) nodePath(n *VNode) string {
	return project.JoinPathVersion(path.Join(u.Repo, n.Base), semver.Major(n.Version))
}

// the pseudo-version modules of the universe with the node that defines them (the INTENDED content: the directory Base
// at revision Rev), keyed by (path, version)
func (u *VUniverse) pseudoNodes() map[VMod]*VNode {
	out := map[VMod]*VNode{}
	for _, p := range append(append([]VPseudo(nil), u.Pseudo...), u.MoreTags...) {
		if n := u.snapshot(p.Rev, p.Base); n != nil {
			out[VMod{project.JoinPathVersion(path.Join(u.Repo, p.Base), semver.Major(p.Version)), p.Version}] = n
		}
	}
	return out
}

// the pseudo-version string module.PseudoVersion would give revision rev on top of the tagged version `older`
func vPseudoVersion(older string, rev int) string {
	ts := time.Unix(100*int64(rev), 0).UTC().Format("20060102150405")
	if semver.Prerelease(older) != "" {
		return fmt.Sprintf("%s.0.%s-%d", older, ts, rev)
	}
	pv, _ := refParse(older)
	return fmt.Sprintf("v%d.%d.%d-0.%s-%d", pv.maj, pv.min, pv.pat+1, ts, rev)
}

// ------------------------------------------------------------------------------------------------ path spellings

// refCleanPath: the cleaning rule of project paths, written here independently of dawn's CleanPath and of path.Clean:
// the part after the last `@` of the last component is the major version; the rest loses empty, `.` and `x/..`
// components; the major version is put back unless it is empty, v0 or v1.
func refCleanPath(p string) string {
	ver := ""
	slash := strings.LastIndexByte(p, '/')
	if at := strings.LastIndexByte(p, '@'); at > slash {
		p, ver = p[:at], p[at+1:]
	}
	var out []string
	for _, c := range strings.Split(p, "/") {
		switch c {
		case "", ".":
		case "..":
			if len(out) > 0 {
				out = out[:len(out)-1]
			}
		default:
			out = append(out, c)
		}
	}
	clean := strings.Join(out, "/")
	if ver == "" || ver == "v0" || ver == "v1" {
		return clean
	}
	return clean + "@" + ver
}

// vSpell: one of the ways a dawn.toml may write the clean project path p (trailing slash, `/./`, `//`, `x/../x`,
// a redundant @v1 / @v0), chosen by the seed; seed 0 = p itself
func vSpell(p string, seed uint64, salt string) string {
	if seed == 0 {
		return p
	}
	h := seed
	for _, c := range []byte(salt + "|" + p) {
		h = h*1099511628211 + uint64(c)
	}
	r := &vRng{h}
	base, suffix := p, ""
	slash := strings.LastIndexByte(p, '/')
	if at := strings.LastIndexByte(p, '@'); at > slash {
		base, suffix = p[:at], p[at:]
	}
	last := base[strings.LastIndexByte(base, '/')+1:]
	head := base[:len(base)-len(last)] // with its trailing slash
	out := p
	switch r.below(9) {
	case 0, 1, 2:
		out = p
	case 3:
		out = base + "/" + suffix
	case 4:
		out = head + "./" + last + suffix
	case 5:
		out = head + "/" + last + suffix
	case 6:
		out = base + "/../" + last + suffix
	case 7:
		if suffix == "" {
			out = base + vPick(r, []string{"@v1", "@v0"})
		} else {
			out = head + "./" + last + "/" + suffix
		}
	default:
		out = head + "/./" + last + "/" + suffix
	}
	if refCleanPath(out) != p {
		panic(fmt.Sprintf("harness bug: spelling %q of %q cleans to %q", out, p, refCleanPath(out)))
	}
	return out
}

// ------------------------------------------------------------------------------------------------ fake VCS

type vRevision struct {
	repo *vRepo
	n    int // 1-based
}

func (r *vRevision) ID() string       { return strconv.Itoa(r.n) }
func (r *vRevision) PseudoID() string { return strconv.Itoa(r.n) }
func (r *vRevision) When() time.Time  { return time.Unix(100*int64(r.n), 0) }
func (r *vRevision) History() iter.Seq[vcs.Revision] {
	return func(yield func(vcs.Revision) bool) {
		for n := r.n; n >= 1; n-- {
			if !yield(&vRevision{r.repo, n}) {
				break
			}
		}
	}
}

type vRepo struct {
	u     *VUniverse
	perm  uint64
	spell uint64
	// legacy: seed that decides which fetched trees also ship a `.dawnconfig` (with OTHER requirements); 0 = none
	legacy uint64
	// failAt: the n-th FetchRevision from now fails once (0 = no fault)
	failAt atomic.Int64
	// further injected faults (C11): the n-th dial / tag listing from now fails once; or every one does while the flag is up
	dialAt, listAt           atomic.Int64
	dialDown, listDown, down atomic.Bool // down: every fetch fails
	dials, lists             atomic.Int64

	once     sync.Once
	versions []*vcs.Version
	fetches  atomic.Int64
}

func (r *vRepo) Path() string { return r.u.Repo }

func (r *vRepo) DefaultRef(ctx context.Context) (string, error) { return r.u.DefaultRef, nil }

func (r *vRepo) Versions(ctx context.Context) ([]*vcs.Version, error) {
	r.lists.Add(1)
	if r.listDown.Load() || (r.listAt.Load() > 0 && r.listAt.Add(-1) == 0) {
		return nil, errors.New("injected fault: listing tags failed")
	}
	r.once.Do(func() {
		// NOTE: non-nil even when empty, as in repo_test.go
		tags := make([]*vcs.Version, 0)
		// the look-alike tags are listed first: the sort below is stable and they compare equal to their canonical twin
		for _, t := range r.u.ExtraTags {
			if !semver.IsValid(t.Tag) {
				continue
			}
			pp := t.Base
			if pp == "" {
				pp = "." // path.Clean("") of a tag without a directory prefix, as internal/vcs does
			}
			tags = append(tags, &vcs.Version{
				Version:     module.Version{Path: project.JoinPathVersion(path.Join(r.u.Repo, t.Base), semver.Major(t.Tag)), Version: t.Tag},
				ProjectPath: pp,
				RevisionID:  strconv.Itoa(t.Rev),
			})
		}
		for i := range r.u.Nodes {
			n := &r.u.Nodes[i]
			if !semver.IsValid(n.Version) {
				continue
			}
			tags = append(tags, &vcs.Version{
				Version:     module.Version{Path: r.u.nodePath(n), Version: n.Version},
				ProjectPath: func() string {
					if n.Base == "" {
						return "."
					}
					return n.Base
				}(),
				RevisionID: strconv.Itoa(i + 1),
			})
		}
		for _, t := range r.u.MoreTags {
			pp := t.Base
			if pp == "" {
				pp = "."
			}
			tags = append(tags, &vcs.Version{
				Version:     module.Version{Path: project.JoinPathVersion(path.Join(r.u.Repo, t.Base), semver.Major(t.Version)), Version: t.Version},
				ProjectPath: pp,
				RevisionID:  strconv.Itoa(t.Rev),
			})
		}
		slices.SortStableFunc(tags, func(a, b *vcs.Version) int {
			return semver.Compare(a.Version.Version, b.Version.Version)
		})
		r.versions = tags
	})
	return r.versions, nil
}

func (r *vRepo) ResolveRef(ctx context.Context, ref string) (string, error) {
	n, ok := r.u.Refs[ref]
	if !ok {
		return "", errors.New("no such reference")
	}
	return strconv.Itoa(n), nil
}

func (r *vRepo) GetRevision(ctx context.Context, id string) (vcs.Revision, error) {
	n, err := strconv.Atoi(id)
	if err != nil || n < 1 || n > len(r.u.Nodes) {
		return nil, errors.New("no such revision")
	}
	return &vRevision{r, n}, nil
}

// snapshot: the node that defines directory base at revision rev (nil when the directory does not exist yet)
func (u *VUniverse) snapshot(rev int, base string) *VNode {
	for i := rev - 1; i >= 0; i-- {
		if u.Nodes[i].Base == base {
			return &u.Nodes[i]
		}
	}
	return nil
}

// declared order of a node's requirements under the permutation seed
func vDeclared(reqs []VMod, perm uint64, salt string) []VMod {
	out := append([]VMod(nil), reqs...)
	if perm == 0 || len(out) < 2 {
		return out
	}
	h := perm
	for _, c := range []byte(salt) {
		h = h*1099511628211 + uint64(c)
	}
	r := &vRng{h}
	for i := len(out) - 1; i > 0; i-- {
		j := r.below(i + 1)
		out[i], out[j] = out[j], out[i]
	}
	return out
}

func (r *vRepo) FetchRevision(ctx context.Context, projectPath string, revision vcs.Revision, destDir string) error {
	rev := revision.(*vRevision)
	dir := projectPath
	if dir == "." {
		dir = ""
	}
	n := r.u.snapshot(rev.n, dir)
	if n == nil {
		return errors.New("no such project")
	}
	r.fetches.Add(1)
	if r.down.Load() || (r.failAt.Load() > 0 && r.failAt.Add(-1) == 0) {
		return errors.New("injected fault: connection reset while fetching")
	}
	reqs := map[string]project.RequirementConfig{}
	// the resolver reads the requirements back sorted by name: the names fix the declared order
	for i, q := range vDeclared(n.Reqs, r.perm, n.Base+"/"+n.Version) {
		reqs[fmt.Sprintf("r%03d", i)] = project.RequirementConfig{
			Path: vSpell(q.Path, r.spell, fmt.Sprintf("%s/%s#%d", n.Base, n.Version, i)), Version: q.Version}
	}
	projectDir := filepath.Join(destDir, filepath.FromSlash(dir))
	if err := os.MkdirAll(projectDir, 0o700); err != nil {
		return err
	}
	if r.legacy != 0 {
		h := r.legacy
		for _, c := range []byte(n.Base + "/" + n.Version) {
			h = h*1099511628211 + uint64(c)
		}
		if h%3 != 0 {
			// the tree also has the legacy file, and it says something else: the requirements of another version
			// of the repository plus one nobody else has. dawn.toml is the one that counts.
			other := &r.u.Nodes[int(h/3)%len(r.u.Nodes)]
			lreqs := map[string]project.RequirementConfig{"legacy": {Path: path.Join(r.u.Repo, "only-in-dawnconfig"), Version: "v1.0.0"}}
			for i, q := range other.Reqs {
				if q != (VMod{r.u.nodePath(n), n.Version}) {
					lreqs[fmt.Sprintf("l%03d", i)] = project.RequirementConfig{Path: q.Path, Version: q.Version}
				}
			}
			if err := project.WriteConfigFile(filepath.Join(projectDir, ".dawnconfig"), &project.Config{Name: "legacy-" + n.Name, Requirements: lreqs}); err != nil {
				return err
			}
		}
	}
	return project.WriteConfigFile(filepath.Join(projectDir, "dawn.toml"), &project.Config{
		Name:         n.Name,
		Version:      n.Version,
		Requirements: reqs,
	})
}

type vDialer struct{ repos map[string]*vRepo }

func (d vDialer) dialRepository(ctx context.Context, kind, address string) (vcs.Repository, error) {
	if r, ok := d.repos[address]; ok {
		r.dials.Add(1)
		if r.dialDown.Load() || (r.dialAt.Load() > 0 && r.dialAt.Add(-1) == 0) {
			return nil, errors.New("injected fault: repository unreachable")
		}
		return r, nil
	}
	return nil, errors.New("unreachable")
}

// ------------------------------------------------------------------------------------------------ reference semver
// An independent reading of semver precedence (not x/mod/semver, not the Lean model): canonical versions only.

type refID struct {
	num bool
	n   uint64
	s   string
}
type refVer struct {
	maj, min, pat uint64
	pre           []refID
}

func refParse(s string) (refVer, bool) {
	var v refVer
	if len(s) < 2 || s[0] != 'v' {
		return v, false
	}
	rest := s[1:]
	pre := ""
	if i := strings.IndexByte(rest, '-'); i >= 0 {
		rest, pre = rest[:i], rest[i+1:]
		if pre == "" {
			return v, false
		}
	}
	parts := strings.Split(rest, ".")
	if len(parts) != 3 {
		return v, false
	}
	var nums [3]uint64
	for i, p := range parts {
		if p == "" || (len(p) > 1 && p[0] == '0') {
			return v, false
		}
		x, err := strconv.ParseUint(p, 10, 63)
		if err != nil {
			return v, false
		}
		nums[i] = x
	}
	v.maj, v.min, v.pat = nums[0], nums[1], nums[2]
	if pre != "" {
		for _, id := range strings.Split(pre, ".") {
			if id == "" {
				return v, false
			}
			allDigits := true
			for _, c := range []byte(id) {
				if c < '0' || c > '9' {
					allDigits = false
				}
				if !(c >= '0' && c <= '9' || c >= 'a' && c <= 'z' || c >= 'A' && c <= 'Z' || c == '-') {
					return v, false
				}
			}
			if allDigits {
				if len(id) > 1 && id[0] == '0' {
					return v, false
				}
				x, err := strconv.ParseUint(id, 10, 63)
				if err != nil {
					return v, false
				}
				v.pre = append(v.pre, refID{num: true, n: x})
			} else {
				v.pre = append(v.pre, refID{s: id})
			}
		}
	}
	return v, true
}

func cmpU(a, b uint64) int {
	switch {
	case a < b:
		return -1
	case a > b:
		return 1
	}
	return 0
}

// refCmp: the root's "" is greater than everything, anything that is not a canonical version ("none") is least.
func refCmp(a, b string) int {
	if a == b {
		return 0
	}
	if b == "" {
		return -1
	}
	if a == "" {
		return 1
	}
	va, oka := refParse(a)
	vb, okb := refParse(b)
	switch {
	case !oka && !okb:
		return 0
	case !oka:
		return -1
	case !okb:
		return 1
	}
	if c := cmpU(va.maj, vb.maj); c != 0 {
		return c
	}
	if c := cmpU(va.min, vb.min); c != 0 {
		return c
	}
	if c := cmpU(va.pat, vb.pat); c != 0 {
		return c
	}
	// a version without prerelease is newer than one with
	switch {
	case len(va.pre) == 0 && len(vb.pre) == 0:
		return 0
	case len(va.pre) == 0:
		return 1
	case len(vb.pre) == 0:
		return -1
	}
	for i := 0; i < len(va.pre) && i < len(vb.pre); i++ {
		x, y := va.pre[i], vb.pre[i]
		switch {
		case x.num && y.num:
			if c := cmpU(x.n, y.n); c != 0 {
				return c
			}
		case x.num:
			return -1
		case y.num:
			return 1
		default:
			if c := strings.Compare(x.s, y.s); c != 0 {
				return c
			}
		}
	}
	return cmpU(uint64(len(va.pre)), uint64(len(vb.pre)))
}

func refMajor(v string) string {
	if p, ok := refParse(v); ok {
		return "v" + strconv.FormatUint(p.maj, 10)
	}
	return ""
}

// ------------------------------------------------------------------------------------------------ reference MVS
// reachability + maximum, written against the universe description (never touches the resolver or pgavlin/mvs)

type refGraph struct {
	req map[VMod][]VMod // tagged versions and pseudo-versions known to the case
}

func refGraphOf(u *VUniverse, extra map[VMod][]VMod) *refGraph {
	g := &refGraph{req: map[VMod][]VMod{}}
	for i := range u.Nodes {
		n := &u.Nodes[i]
		g.req[VMod{u.nodePath(n), n.Version}] = n.Reqs
	}
	for k, n := range u.pseudoNodes() {
		g.req[k] = n.Reqs // what the directory declares at that revision — not what a resolver happens to fetch
	}
	for k, v := range extra {
		g.req[k] = v
	}
	return g
}

// reach: every (path, version) reachable from the roots through requirement edges; ok=false when a reachable
// requirement names something that does not exist (the resolver cannot fetch it)
func (g *refGraph) reach(roots []VMod) (map[VMod]bool, bool) {
	seen := map[VMod]bool{}
	ok := true
	queue := append([]VMod(nil), roots...)
	for len(queue) > 0 {
		m := queue[0]
		queue = queue[1:]
		if seen[m] {
			continue
		}
		seen[m] = true
		reqs, exists := g.req[m]
		if !exists {
			ok = false
			continue
		}
		queue = append(queue, reqs...)
	}
	return seen, ok
}

func (g *refGraph) buildList(roots []VMod) (map[string]string, bool) {
	seen, ok := g.reach(roots)
	if !ok {
		return nil, false
	}
	bl := map[string]string{}
	for m := range seen {
		if cur, has := bl[m.Path]; !has || refCmp(cur, m.Version) < 0 {
			bl[m.Path] = m.Version
		}
	}
	return bl, true
}

func rootMods(root map[string]VMod) []VMod {
	var out []VMod
	for _, n := range sortedKeys(root) {
		out = append(out, root[n])
	}
	return out
}

func sortedKeys[V any](m map[string]V) []string {
	ks := make([]string, 0, len(m))
	for k := range m {
		ks = append(ks, k)
	}
	sort.Strings(ks)
	return ks
}

// the directory of a (clean) project path inside the repository
func refDirOf(u *VUniverse, cpath string) string {
	p := cpath
	slash := strings.LastIndexByte(p, '/')
	if at := strings.LastIndexByte(p, '@'); at > slash {
		p = p[:at]
	}
	if p == u.Repo {
		return ""
	}
	return strings.TrimPrefix(p, u.Repo+"/")
}

// refResolveRef: what a ref query on a project should resolve to — the tag itself when the revision carries a version
// tag of that project (and major line), otherwise a pseudo-version built on the CLOSEST tagged ancestor, so that the
// result sorts above every version the revision descends from along the way. Independent of dawn's resolveRefQuery.
func refResolveRef(u *VUniverse, cpath, ref string) (VMod, int, bool) {
	rev, ok := u.Refs[ref]
	if !ok || !strings.HasPrefix(cpath+"/", u.Repo+"/") && cpath != u.Repo && !strings.HasPrefix(cpath, u.Repo+"@") {
		return VMod{}, 0, false
	}
	tags := u.allTags()
	for n := rev; n >= 1; n-- {
		best := ""
		for _, t := range tags {
			if t.Rev == n && t.Path == cpath && (best == "" || refCmp(t.Version, best) > 0) {
				best = t.Version
			}
		}
		if best == "" {
			continue
		}
		if n == rev {
			return VMod{cpath, best}, rev, true
		}
		return VMod{cpath, vPseudoVersion(best, rev)}, rev, true
	}
	// no tagged ancestor: v0.0.0-… for a path without a major suffix; with a suffix vN dawn bases the pseudo-version on
	// "vN" itself, i.e. vN.0.1-0.… (an ordering-neutral peculiarity, taken over here)
	slash := strings.LastIndexByte(cpath, '/')
	if at := strings.LastIndexByte(cpath, '@'); at > slash {
		return VMod{cpath, vPseudoVersion(cpath[at+1:]+".0.0", rev)}, rev, true
	}
	ts := time.Unix(100*int64(rev), 0).UTC().Format("20060102150405")
	return VMod{cpath, fmt.Sprintf("v0.0.0-%s-%d", ts, rev)}, rev, true
}

// ------------------------------------------------------------------------------------------------ canonical text

func encMod(m VMod) string { return m.Path + "#" + m.Version }

func encList(xs []string) string {
	if len(xs) == 0 {
		return "-"
	}
	return strings.Join(xs, ",")
}

func encBL(bl map[string]string) string {
	var xs []string
	for _, p := range sortedKeys(bl) {
		if p == "" {
			continue // §4: build lists are compared without the root entry
		}
		xs = append(xs, p+"#"+bl[p])
	}
	return encList(xs)
}

func encReqs(r map[string]VMod) string {
	var xs []string
	for _, n := range sortedKeys(r) {
		xs = append(xs, n+"="+encMod(r[n]))
	}
	return encList(xs)
}

func cfgToV(r map[string]project.RequirementConfig) map[string]VMod {
	out := map[string]VMod{}
	for n, q := range r {
		out[n] = VMod{q.Path, q.Version}
	}
	return out
}

// the root project's configuration. With a spelling seed it goes the way the CLI takes: written to a dawn.toml with
// non-canonical spellings of the requirement paths and loaded back with project.LoadConfigFile.
func vToCfg(r map[string]VMod, spell uint64) *project.Config {
	out := map[string]project.RequirementConfig{}
	for n, q := range r {
		out[n] = project.RequirementConfig{Path: vSpell(q.Path, spell, "root#"+n), Version: q.Version}
	}
	cfg := &project.Config{Requirements: out}
	if spell == 0 {
		return cfg
	}
	f, err := os.CreateTemp(vScratch, "root-*.toml")
	if err != nil {
		panic(err)
	}
	f.Close()
	defer os.Remove(f.Name())
	if err := project.WriteConfigFile(f.Name(), cfg); err != nil {
		panic(err)
	}
	loaded, err := project.LoadConfigFile(f.Name())
	if err != nil {
		panic(fmt.Sprintf("the root dawn.toml does not load: %v", err))
	}
	if loaded.Requirements == nil {
		loaded.Requirements = map[string]project.RequirementConfig{}
	}
	return loaded
}

// the universe as the driver reads it: `<repo> <nodes> <tags> <refs>`
//   nodes: path#version#name>req,req|…     (requirement lists in DECLARED order)
//   tags:  path#version,…                   (in the order repo.Versions() returns them)
//   refs:  default;path#ref=path#version;path#ref=!;…   (what a ref query resolves to: a parameter of the model)
func encUniverse(u *VUniverse, perm uint64, tags []*vcs.Version, extra map[VMod]*VNode, refs []string) string {
	var ns []string
	for i := range u.Nodes {
		n := &u.Nodes[i]
		var rs []string
		for _, q := range vDeclared(n.Reqs, perm, n.Base+"/"+n.Version) {
			rs = append(rs, encMod(q))
		}
		ns = append(ns, encMod(VMod{u.nodePath(n), n.Version})+"#"+n.Name+">"+strings.Join(rs, ","))
	}
	var eks []VMod
	for k := range extra {
		eks = append(eks, k)
	}
	sort.Slice(eks, func(i, j int) bool { return encMod(eks[i]) < encMod(eks[j]) })
	for _, k := range eks {
		n := extra[k]
		var rs []string
		for _, q := range vDeclared(n.Reqs, perm, n.Base+"/"+n.Version) {
			rs = append(rs, encMod(q))
		}
		ns = append(ns, encMod(k)+"#"+n.Name+">"+strings.Join(rs, ","))
	}
	var ts []string
	for _, t := range tags {
		if semver.Canonical(t.Version.Version) != t.Version.Version {
			continue // look-alike tags are not versions a requirement can name: not part of the universe
		}
		ts = append(ts, encMod(VMod{t.Version.Path, t.Version.Version})+"!"+t.RevisionID)
	}
	nodes := "-"
	if len(ns) > 0 {
		nodes = strings.Join(ns, "|")
	}
	return u.Repo + " " + nodes + " " + encList(ts) + " " + u.DefaultRef + ";" + strings.Join(refs, ";")
}

// ------------------------------------------------------------------------------------------------ running the code

type vSession struct {
	c        *VCase
	repo     *vRepo
	dialer   vDialer
	cacheDir string
	res      *Resolver
	tmp      []string
}

func newSession(c *VCase, perm uint64) *vSession {
	repo := &vRepo{u: &c.U, perm: perm, spell: c.Spell, legacy: c.Legacy}
	return &vSession{c: c, repo: repo, dialer: vDialer{repos: map[string]*vRepo{c.U.Repo: repo}}}
}

func (s *vSession) newCacheDir() string {
	d, err := os.MkdirTemp(vScratch, "mvs-*")
	if err != nil {
		panic(err)
	}
	s.tmp = append(s.tmp, d)
	return d
}

func (s *vSession) close() {
	for _, d := range s.tmp {
		os.RemoveAll(d)
	}
}

// resolver according to the cache mode: cold = empty cache directory and a new resolver for every operation;
// disk = one cache directory, a new resolver for every operation (what consecutive CLI invocations do);
// mem = one resolver (library use)
func (s *vSession) resolver(mode string) *Resolver {
	switch mode {
	case "cold":
		return NewResolver(s.newCacheDir(), s.dialer, nil)
	case "disk":
		if s.cacheDir == "" {
			s.cacheDir = s.newCacheDir()
		}
		return NewResolver(s.cacheDir, s.dialer, nil)
	default:
		if s.res == nil {
			s.res = NewResolver(s.newCacheDir(), s.dialer, nil)
		}
		return s.res
	}
}

// vFaultEvery: the fault scenarios run on every n-th edit (quick: 4, thorough and replay: 1)
var vFaultEvery = uint64(1)

var (
	vScratch   string
	vTimeout   = 30 * time.Second
	vHangs     atomic.Int64
	vMaxHangs  = int64(3)
)

type opOut struct {
	kind string // ok | err:buildlist | err:other | hang | panic
	bl   map[string]string
	list []module.Version // raw third-party build list (bl op)
	reqs map[string]VMod
	msg  string
}

func errKind(err error) string {
	var ble *tmvs.BuildListError
	if errors.As(err, &ble) {
		return "err:buildlist"
	}
	return "err:other"
}

// watchdog: the operation runs in its own goroutine; a goroutine that does not come back is reported as a
// hang and abandoned (it spins for the rest of the process' life, hence the cap vMaxHangs)
func guarded(f func() opOut) opOut {
	ch := make(chan opOut, 1)
	go func() {
		defer func() {
			if r := recover(); r != nil {
				ch <- opOut{kind: "panic", msg: fmt.Sprint(r)}
			}
		}()
		ch <- f()
	}()
	select {
	case o := <-ch:
		return o
	case <-time.After(vTimeout):
		vHangs.Add(1)
		return opOut{kind: "hang"}
	}
}

func runBL(spell uint64, res *Resolver, root map[string]VMod) opOut {
	return guarded(func() opOut {
		bl, err := BuildList(context.Background(), vToCfg(root, spell), res)
		if err != nil {
			return opOut{kind: errKind(err), msg: err.Error()}
		}
		return opOut{kind: "ok", bl: bl}
	})
}

// the third-party list itself (root entry first), to check "each once" on the list rather than on a map
func runRawBL(res *Resolver, root map[string]VMod) opOut {
	return guarded(func() opOut {
		rp := &mvsProject{Version: module.Version{}}
		for _, m := range rootMods(root) {
			rp.Requirements = append(rp.Requirements, module.Version{Path: m.Path, Version: m.Version})
		}
		l, err := tmvs.BuildList(context.Background(), []module.Version{rp.Version}, newReqs(rp, res))
		if err != nil {
			return opOut{kind: errKind(err), msg: err.Error()}
		}
		return opOut{kind: "ok", list: l}
	})
}

func runEdit(spell uint64, res *Resolver, root map[string]VMod, op string) opOut {
	return guarded(func() opOut {
		var r map[string]project.RequirementConfig
		var err error
		switch {
		case op == "tidy":
			r, err = Tidy(context.Background(), vToCfg(root, spell), res)
		case op == "upall":
			r, err = UpgradeAll(context.Background(), vToCfg(root, spell), res)
		case strings.HasPrefix(op, "get:"):
			r, err = Get(context.Background(), vToCfg(root, spell), res, op[4:])
		default:
			panic("unknown op " + op)
		}
		if err != nil {
			return opOut{kind: errKind(err), msg: err.Error()}
		}
		return opOut{kind: "ok", reqs: cfgToV(r)}
	})
}

// what the query of a get resolves to against the current build list, observed through the package's own
// querier: (resolved, branch) with branch ∈ add | same | up | down; ok=false when resolution fails
func observeGet(res *Resolver, root map[string]VMod, query string) (VMod, string, bool) {
	type out struct {
		v  VMod
		br string
		ok bool
	}
	ch := make(chan out, 1)
	go func() {
		defer func() {
			if r := recover(); r != nil {
				ch <- out{}
			}
		}()
		rp := &mvsProject{Version: module.Version{}}
		for _, m := range rootMods(root) {
			rp.Requirements = append(rp.Requirements, module.Version{Path: m.Path, Version: m.Version})
		}
		ctx := context.Background()
		bl, err := tmvs.BuildList(ctx, []module.Version{rp.Version}, newReqs(rp, res))
		if err != nil {
			ch <- out{}
			return
		}
		v, err := newQuerier(res).resolveVersionQuery(ctx, bl, parseVersionQuery(query))
		if err != nil {
			ch <- out{}
			return
		}
		br := "add"
		for _, m := range bl {
			if m.Path == v.Path {
				switch semver.Compare(m.Version, v.Version) {
				case -1:
					br = "up"
				case 1:
					br = "down"
				default:
					br = "same"
				}
			}
		}
		ch <- out{VMod{v.Path, v.Version}, br, true}
	}()
	select {
	case o := <-ch:
		return o.v, o.br, o.ok
	case <-time.After(vTimeout):
		return VMod{}, "", false
	}
}

// ------------------------------------------------------------------------------------------------ generator

var vPre = []string{"-rc.1", "-alpha", "-beta.2", "-rc.2", "-0.3", "-alpha.1"}
var vNames = []string{"", "", "lib", "core", "lib"}

// version sets in which the order of the STRINGS and the order of the VERSIONS disagree: the first two of every pool have
// the same length and sort the other way round as text (a digit boundary moves: 9 → 10 in the minor, patch or a numeric
// prerelease identifier); the rest are neighbours of other lengths
var vBoundaryPools = [][]string{
	{"v1.9.10", "v1.10.0", "v1.10.2", "v1.2.10", "v1.9.9", "v1.10.10", "v1.9.11"},
	{"v1.2.10", "v1.10.2", "v1.2.9", "v1.10.0", "v1.3.0", "v1.11.0"},
	{"v1.2.0-9.ab", "v1.2.0-10.a", "v1.2.0-rc.9", "v1.2.0-rc.10", "v1.2.0-rc.11", "v1.2.0", "v1.1.0"},
	{"v2.9.10", "v2.10.0", "v2.10.9", "v2.9.99", "v2.0.0", "v2.100.0"},
	{"v0.9.10", "v0.10.0", "v1.0.0", "v0.10.10", "v0.2.0"},
	{"v1.0.9-rc.10", "v1.0.10-rc.1", "v1.0.9", "v1.0.10", "v1.0.9-rc.9"},
	{"v1.19.0", "v1.2.10", "v1.20.0", "v1.9.0", "v1.100.0"},
	{"v3.0.19", "v3.0.20", "v3.0.9", "v3.0.100", "v3.1.0"},
}

// two tagged versions of the group that have the same length and whose text order differs from their version order
func confusingPair(u *VUniverse, g genGroup) (string, string, bool) {
	for _, i := range g.nodes {
		for _, j := range g.nodes {
			a, b := u.Nodes[i].Version, u.Nodes[j].Version
			if len(a) == len(b) && refCmp(a, b) < 0 && strings.Compare(a, b) > 0 {
				return a, b, true
			}
		}
	}
	return "", "", false
}

type genGroup struct {
	path  string
	nodes []int // indices into u.Nodes, ascending version
}

func genUniverse(r *vRng) (VUniverse, []genGroup) {
	u := VUniverse{Repo: "github.com/v/u", Refs: map[string]int{}, DefaultRef: "main"}
	np := 2 + r.below(7)
	var groups []genGroup
	type pending struct {
		base, version, name string
		group               int
	}
	var pend []pending
	for p := 0; p < np; p++ {
		base := "p" + strconv.Itoa(p)
		if r.chance(1, 8) {
			base = "lib/" + base
		}
		if p == 0 && r.chance(1, 5) {
			base = "" // the project at the root of the repository (tags without a directory prefix)
		}
		name := vPick(r, vNames)
		if r.chance(1, 3) {
			name = "n" + strconv.Itoa(p)
		}
		if r.chance(3, 10) {
			// multi-digit components around a digit boundary
			pool := vPick(r, vBoundaryPools)
			take := map[string]bool{pool[0]: true, pool[1]: true}
			for k := r.below(4); k > 0; k-- {
				take[vPick(r, pool)] = true
			}
			for _, v := range pool {
				if !take[v] {
					continue
				}
				pth := project.JoinPathVersion(path.Join(u.Repo, base), semver.Major(v))
				gi := -1
				for i := range groups {
					if groups[i].path == pth {
						gi = i
					}
				}
				if gi == -1 {
					groups = append(groups, genGroup{path: pth})
					gi = len(groups) - 1
				}
				pend = append(pend, pending{base, v, name, gi})
			}
			continue
		}
		var majors []int
		switch r.below(10) {
		case 0:
			majors = []int{0, 1}
		case 1, 2:
			majors = []int{1, 2}
		case 3:
			majors = []int{2}
		case 4:
			majors = []int{1, 2, 3}
		default:
			majors = []int{1}
		}
		total := 1 + r.below(5)
		if total < len(majors) {
			total = len(majors)
		}
		for mi, maj := range majors {
			nv := total / len(majors)
			if mi < total%len(majors) {
				nv++
			}
			gi := -1
			minor, patch := r.below(3), 0
			for k := 0; k < nv; k++ {
				v := fmt.Sprintf("v%d.%d.%d", maj, minor, patch)
				if r.chance(1, 7) {
					v += vPick(r, vPre)
				}
				pth := project.JoinPathVersion(path.Join(u.Repo, base), "v"+strconv.Itoa(maj))
				if gi == -1 {
					for i := range groups {
						if groups[i].path == pth {
							gi = i
						}
					}
					if gi == -1 {
						groups = append(groups, genGroup{path: pth})
						gi = len(groups) - 1
					}
				}
				nm := name
				if r.chance(1, 10) {
					nm = vPick(r, vNames)
				}
				pend = append(pend, pending{base, v, nm, gi})
				if strings.Contains(v, "-") && r.chance(1, 2) {
					// the release after a prerelease: same triple
				} else if r.chance(1, 3) {
					patch += 1 + r.below(2)
				} else {
					minor += 1 + r.below(2)
					patch = 0
				}
			}
		}
	}
	// near-collisions: a second project whose directory differs from an existing one only in letter case, by a trailing dot,
	// by `%2F` for `/`, or by the Unicode normalisation form of one letter — with the SAME version strings and its own
	// requirements. They are distinct projects; nothing that folds case or escapes paths may confuse them.
	if len(pend) > 0 && r.chance(1, 4) {
		src := pend[r.below(len(pend))].base
		if src != "" {
			var twins []string
			switch r.below(4) {
			case 0:
				last := src[strings.LastIndexByte(src, '/')+1:]
				twins = []string{src[:len(src)-len(last)] + strings.ToUpper(last[:1]) + last[1:]}
			case 1:
				twins = []string{src + "."}
			case 2:
				if strings.Contains(src, "/") {
					twins = []string{strings.Replace(src, "/", "%2F", 1)}
				} else {
					twins = []string{strings.ToUpper(src)}
				}
			default:
				twins = []string{src + "-\u00e9", src + "-e\u0301"} // é precomposed and decomposed
			}
			n0 := len(pend)
			for _, tw := range twins {
				for i := 0; i < n0; i++ {
					if pend[i].base != src {
						continue
					}
					pth := project.JoinPathVersion(path.Join(u.Repo, tw), semver.Major(pend[i].version))
					gi := -1
					for k := range groups {
						if groups[k].path == pth {
							gi = k
						}
					}
					if gi == -1 {
						groups = append(groups, genGroup{path: pth})
						gi = len(groups) - 1
					}
					pend = append(pend, pending{tw, pend[i].version, pend[i].name, gi})
				}
			}
		}
	}
	// drop accidental duplicates (a prerelease followed by the same prerelease)
	seen := map[string]bool{}
	var uniq []pending
	for _, p := range pend {
		k := p.base + "/" + p.version
		if !seen[k] {
			seen[k] = true
			uniq = append(uniq, p)
		}
	}
	pend = uniq
	// revision order: mostly chronological per project, interleaved at random
	order := make([]int, len(pend))
	for i := range order {
		order[i] = i
	}
	if r.chance(1, 4) {
		for i := len(order) - 1; i > 0; i-- {
			j := r.below(i + 1)
			order[i], order[j] = order[j], order[i]
		}
	} else {
		// random interleaving that keeps each project's own order
		keys := make([]int, len(pend))
		for i := range keys {
			keys[i] = r.below(1000)
		}
		sort.SliceStable(order, func(a, b int) bool {
			if pend[order[a]].base == pend[order[b]].base {
				return order[a] < order[b]
			}
			return keys[order[a]] < keys[order[b]]
		})
	}
	for _, i := range order {
		p := pend[i]
		u.Nodes = append(u.Nodes, VNode{Base: p.base, Version: p.version, Name: p.name})
		groups[p.group].nodes = append(groups[p.group].nodes, len(u.Nodes)-1)
	}
	for gi := range groups {
		g := &groups[gi]
		sort.SliceStable(g.nodes, func(a, b int) bool {
			return refCmp(u.Nodes[g.nodes[a]].Version, u.Nodes[g.nodes[b]].Version) < 0
		})
	}
	// requirement edges
	dens := r.below(3) // sparse, medium, dense
	for i := range u.Nodes {
		var k int
		switch x := r.below(100); {
		case x < 35-10*dens:
			k = 0
		case x < 65-10*dens:
			k = 1
		case x < 88-5*dens:
			k = 2
		default:
			k = 3
		}
		used := map[string]bool{}
		for e := 0; e < k; e++ {
			g := groups[r.below(len(groups))]
			self := g.path == u.nodePath(&u.Nodes[i])
			if self && !r.chance(1, 6) {
				continue
			}
			if used[g.path] && !r.chance(1, 10) {
				continue
			}
			used[g.path] = true
			t := &u.Nodes[vPick(r, g.nodes)]
			if self && t.Version == u.Nodes[i].Version {
				continue
			}
			u.Nodes[i].Reqs = append(u.Nodes[i].Reqs, VMod{g.path, t.Version})
		}
	}
	// shapes the property names explicitly, forced now and then
	if len(groups) >= 4 && r.chance(1, 4) {
		a, b, c, d := groups[0], groups[1], groups[2], groups[3]
		an := &u.Nodes[a.nodes[len(a.nodes)-1]]
		bn := &u.Nodes[vPick(r, b.nodes)]
		cn := &u.Nodes[vPick(r, c.nodes)]
		an.Reqs = append(an.Reqs, VMod{b.path, bn.Version}, VMod{c.path, cn.Version})
		bn.Reqs = append(bn.Reqs, VMod{d.path, u.Nodes[d.nodes[0]].Version})
		cn.Reqs = append(cn.Reqs, VMod{d.path, u.Nodes[d.nodes[len(d.nodes)-1]].Version}) // diamond
	}
	if len(groups) >= 2 && r.chance(1, 4) {
		a, b := groups[r.below(len(groups))], groups[r.below(len(groups))]
		if a.path != b.path {
			an := &u.Nodes[vPick(r, a.nodes)]
			bn := &u.Nodes[vPick(r, b.nodes)]
			an.Reqs = append(an.Reqs, VMod{b.path, bn.Version})
			bn.Reqs = append(bn.Reqs, VMod{a.path, u.Nodes[vPick(r, a.nodes)].Version}) // cycle
		}
	}
	// diamonds that demand a pair of versions whose text order is the wrong one: x → y, z ; y → d@a ; z → d@b
	for _, d := range groups {
		a, b, ok := confusingPair(&u, d)
		if !ok || len(groups) < 3 || !r.chance(2, 3) {
			continue
		}
		var others []genGroup
		for _, g := range groups {
			if g.path != d.path {
				others = append(others, g)
			}
		}
		x, y, z := others[r.below(len(others))], others[r.below(len(others))], others[r.below(len(others))]
		xn := &u.Nodes[vPick(r, x.nodes)]
		yn := &u.Nodes[vPick(r, y.nodes)]
		zn := &u.Nodes[vPick(r, z.nodes)]
		if r.chance(1, 2) {
			a, b = b, a
		}
		yn.Reqs = append(yn.Reqs, VMod{d.path, a})
		zn.Reqs = append(zn.Reqs, VMod{d.path, b})
		if y.path != x.path {
			xn.Reqs = append(xn.Reqs, VMod{y.path, yn.Version})
		}
		if z.path != x.path {
			xn.Reqs = append(xn.Reqs, VMod{z.path, zn.Version})
		}
	}
	// requirements at pseudo-versions: a project directory as of some revision of the (one) repository, required by
	// tagged versions of sibling projects — the directory is then found through the repository cache of the resolver
	if r.chance(1, 2) {
		for k := 1 + r.below(3); k > 0; k-- {
			rev := 1 + r.below(len(u.Nodes))
			// a directory that exists at that revision
			var bases []string
			seenB := map[string]bool{}
			for i := 0; i < rev; i++ {
				if !seenB[u.Nodes[i].Base] {
					seenB[u.Nodes[i].Base] = true
					bases = append(bases, u.Nodes[i].Base)
				}
			}
			b := vPick(r, bases)
			sn := u.snapshot(rev, b)
			pv := VPseudo{Base: b, Version: vPseudoVersion(sn.Version, rev), Rev: rev}
			dup := false
			for _, q := range u.Pseudo {
				if q == pv {
					dup = true
				}
			}
			if dup {
				continue
			}
			u.Pseudo = append(u.Pseudo, pv)
			pm := VMod{project.JoinPathVersion(path.Join(u.Repo, b), semver.Major(pv.Version)), pv.Version}
			for e := 1 + r.below(2); e > 0; e-- {
				from := &u.Nodes[r.below(len(u.Nodes))]
				if from.Base != b {
					from.Reqs = append(from.Reqs, pm)
				}
			}
		}
	}
	// several version tags on one revision: a second tag of the same project, or a tag of a sibling project
	if r.chance(1, 3) {
		have := map[VMod]bool{}
		for _, t := range u.allTags() {
			have[t.VMod] = true
		}
		for k := 1 + r.below(3); k > 0; k-- {
			i := r.below(len(u.Nodes))
			n := &u.Nodes[i]
			pv, _ := refParse(n.Version)
			var t VPseudo
			if r.chance(1, 2) {
				v := fmt.Sprintf("v%d.%d.%d", pv.maj, pv.min, pv.pat)
				if len(pv.pre) == 0 {
					v += vPick(r, []string{"-rc.1", "-rc1", "-0"})
				}
				t = VPseudo{Base: n.Base, Version: v, Rev: i + 1}
			} else {
				var sibs []*VNode
				seenB := map[string]bool{n.Base: true}
				for j := 0; j <= i; j++ {
					if b := u.Nodes[j].Base; !seenB[b] {
						seenB[b] = true
						sibs = append(sibs, u.snapshot(i+1, b))
					}
				}
				if len(sibs) == 0 {
					continue
				}
				sn := vPick(r, sibs)
				sp, _ := refParse(sn.Version)
				t = VPseudo{Base: sn.Base, Version: fmt.Sprintf("v%d.%d.%d", sp.maj, sp.min, sp.pat+50+uint64(r.below(3))), Rev: i + 1}
			}
			m := VMod{project.JoinPathVersion(path.Join(u.Repo, t.Base), semver.Major(t.Version)), t.Version}
			if !have[m] {
				have[m] = true
				u.MoreTags = append(u.MoreTags, t)
			}
		}
	}
	// a requirement the resolver cannot fetch, rarely
	if r.chance(1, 40) {
		n := &u.Nodes[r.below(len(u.Nodes))]
		if r.chance(1, 2) {
			n.Reqs = append(n.Reqs, VMod{groups[r.below(len(groups))].path, "v1.99.0"})
		} else {
			n.Reqs = append(n.Reqs, VMod{"github.com/v/elsewhere/q", "v1.0.0"})
		}
	}
	u.Refs["main"] = len(u.Nodes)
	u.Refs["dev"] = 1 + r.below(len(u.Nodes))
	return u, groups
}

func baseName(p string) string { return path.Base(p) }

func genRoot(r *vRng, u *VUniverse, groups []genGroup) map[string]VMod {
	root := map[string]VMod{}
	k := 1 + r.below(5)
	if r.chance(1, 25) {
		k = 0
	}
	for i := 0; i < k; i++ {
		g := groups[r.below(len(groups))]
		n := &u.Nodes[vPick(r, g.nodes)]
		name := baseName(g.path)
		switch r.below(6) {
		case 0:
			name = "n" + strconv.Itoa(i)
		case 1:
			// a name another project would be given by `get`: forces the uniqueness suffix
			name = baseName(groups[r.below(len(groups))].path)
		case 2:
			if n.Name != "" {
				_, major := project.SplitPathVersion(g.path)
				name = project.JoinPathVersion(n.Name, major)
			}
		}
		if _, taken := root[name]; taken {
			if !r.chance(1, 2) {
				continue
			}
			name = name + "_" + strconv.Itoa(i)
		}
		root[name] = VMod{g.path, n.Version}
	}
	// a pseudo-version required directly by the project file
	if len(u.Pseudo) > 0 && r.chance(1, 3) {
		pv := vPick(r, u.Pseudo)
		root["ps"+strconv.Itoa(pv.Rev)] = VMod{project.JoinPathVersion(path.Join(u.Repo, pv.Base), semver.Major(pv.Version)), pv.Version}
	}
	// a confusing pair demanded by the project file itself, under two names
	if r.chance(1, 5) {
		for _, g := range groups {
			if a, b, ok := confusingPair(u, g); ok {
				root["lo"], root["hi"] = VMod{g.path, a}, VMod{g.path, b}
				break
			}
		}
	}
	// two names for one path
	if len(root) > 0 && r.chance(1, 6) {
		ks := sortedKeys(root)
		m := root[ks[r.below(len(ks))]]
		for _, g := range groups {
			if g.path == m.Path {
				v := u.Nodes[vPick(r, g.nodes)].Version
				root["alias"+strconv.Itoa(r.below(3))] = VMod{m.Path, v}
			}
		}
	}
	return root
}

// a query for `get`: aimed at a project of the current build list a little more often than not (so that upgrades and
// downgrades dominate over adds), with the version chosen above / below the selected one
func genQuery(r *vRng, u *VUniverse, groups []genGroup, bl map[string]string) string {
	g := groups[r.below(len(groups))]
	if len(bl) > 0 && r.chance(11, 20) {
		var inBL []genGroup
		for _, x := range groups {
			if _, ok := bl[x.path]; ok {
				inBL = append(inBL, x)
			}
		}
		if len(inBL) > 0 {
			g = inBL[r.below(len(inBL))]
		}
	}
	n := &u.Nodes[vPick(r, g.nodes)]
	if cur, ok := bl[g.path]; ok && r.chance(3, 4) {
		// a version other than the selected one, when there is one
		var others []int
		for _, i := range g.nodes {
			if u.Nodes[i].Version != cur {
				others = append(others, i)
			}
		}
		if len(others) > 0 {
			n = &u.Nodes[vPick(r, others)]
		}
	}
	pv, _ := refParse(n.Version)
	full := g.path
	switch r.below(40) {
	case 0, 1, 2, 3, 4, 5, 6, 7, 8, 9, 10, 11:
		return full + "@" + n.Version
	case 12, 13:
		return full + fmt.Sprintf("@v%d.%d", pv.maj, pv.min)
	case 14, 15:
		return full + "@<" + n.Version
	case 16, 17:
		return full + "@<=" + n.Version
	case 18, 19:
		return full + "@>" + n.Version
	case 20, 21:
		return full + "@>=" + n.Version
	case 22:
		return full + fmt.Sprintf("@<=v%d.%d", pv.maj, pv.min+1)
	case 23:
		return full + fmt.Sprintf("@>v%d.%d", pv.maj, pv.min)
	case 24, 25:
		return full + "@latest"
	case 26, 27:
		return full
	case 28, 29, 30:
		return full + "@patch"
	case 31, 32, 33:
		return full + "@upgrade"
	case 34, 35:
		return full + "@" + vPick(r, []string{"main", "dev", "dev", "nope"})
	case 36, 37:
		// the bare major: parsed as "latest of that major"
		return project.TrimPathVersion(full) + fmt.Sprintf("@v%d", pv.maj)
	case 38:
		return full + fmt.Sprintf("@v%d.%d.%d", pv.maj, pv.min, pv.pat+7) // no such tag
	default:
		return vPick(r, []string{"github.com/v/elsewhere/q@latest", full + "@<", full + "@>=", full + "@v1.x", full + "@>v"})
	}
}

func genCase(r *vRng, prop string) *VCase {
	u, groups := genUniverse(r)
	c := &VCase{Prop: prop, U: u, Root: genRoot(r, &u, groups)}
	c.Cache = vPick(r, []string{"cold", "disk", "mem"})
	if r.chance(1, 2) {
		c.Spell = r.next() | 1
	}
	if r.chance(1, 2) {
		c.Legacy = r.next() | 1
	}
	{
		// look-alike tags: non-canonical spellings of tagged versions, on other revisions; also non-canonical tags that
		// are NEWER than every canonical one (D30). They are not versions a requirement can name: dawn ignores them, and
		// the universe (model, reference) does not contain them.
		if r.chance(1, 2) {
			for k := 1 + r.below(3); k > 0; k-- {
				i := r.below(len(u.Nodes))
				n := &u.Nodes[i]
				pv, _ := refParse(n.Version)
				var forms []string
				forms = append(forms, n.Version+"+build7", n.Version+"+other")
				if len(pv.pre) == 0 && pv.pat == 0 {
					forms = append(forms, fmt.Sprintf("v%d.%d", pv.maj, pv.min))
					if pv.min == 0 {
						forms = append(forms, fmt.Sprintf("v%d", pv.maj))
					}
				}
				// a revision at which the directory exists and says something else, if there is one
				rev := 0
				for try := 0; try < 6 && rev == 0; try++ {
					cand := 1 + r.below(len(u.Nodes))
					if sn := u.snapshot(cand, n.Base); sn != nil && cand != i+1 && fmt.Sprint(sn.Reqs) != fmt.Sprint(n.Reqs) {
						rev = cand
					}
				}
				if rev != 0 {
					u.ExtraTags = append(u.ExtraTags, VTag{Base: n.Base, Tag: vPick(r, forms), Rev: rev})
				}
				if r.chance(1, 2) {
					// newer than everything tagged in that major: a short form, or build metadata on a version nobody tagged
					u.ExtraTags = append(u.ExtraTags, VTag{Base: n.Base, Rev: i + 1,
						Tag: vPick(r, []string{fmt.Sprintf("v%d.%d", pv.maj, pv.min+20), fmt.Sprintf("v%d.%d.%d+build7", pv.maj, pv.min+20, 1)})})
				}
			}
			c.U = u
		}
	}
	if prop == "C10" {
		c.Ops = []string{"bl"}
		c.Perm = r.next() | 1
		for k := 1 + r.below(2); k > 0; k-- {
			c.OtherRoots = append(c.OtherRoots, genRoot(r, &u, groups))
		}
		return c
	}
	bl, _ := refGraphOf(&u, nil).buildList(rootMods(c.Root))
	n := 1 + r.below(4)
	for i := 0; i < n; i++ {
		switch x := r.below(10); {
		case x < 6:
			c.Ops = append(c.Ops, "get:"+genQuery(r, &u, groups, bl))
		case x < 8:
			c.Ops = append(c.Ops, "tidy")
		case x < 9:
			c.Ops = append(c.Ops, "upall")
		default:
			c.Ops = append(c.Ops, "bl")
		}
	}
	return c
}

// ------------------------------------------------------------------------------------------------ one case

type caseOut struct {
	lines []string // C / V records
	stats map[string]int
	line  string // the driver input of this case (so that a violation can be re-judged on the model side)
}

func (o *caseOut) stat(k string) { o.stats[k]++ }

func (o *caseOut) violation(c *VCase, kind, detail string, step int, key string) {
	in := map[string]any{"universe": c.U, "root": c.Root, "ops": c.Ops, "cache": c.Cache, "perm": c.Perm, "prop": c.Prop,
		"spell": c.Spell, "other_roots": c.OtherRoots, "legacy": c.Legacy}
	v := map[string]any{"prop": c.Prop, "kind": kind, "detail": detail, "step": step, "input": in, "line": o.line}
	if key != "" {
		v["mechanism"] = key
	}
	b, _ := json.Marshal(v)
	o.lines = append(o.lines, "V\t"+string(b))
	o.stat("violation:" + kind)
}

func eqBL(a, b map[string]string) bool {
	return encBL(a) == encBL(b)
}

func queryPathOf(op string) string {
	q := parseVersionQuery(op[4:])
	return q.path
}

// runCase executes the operations of one case on the real code, emits the correspondence pair and judges every
// step with the reference.
func runCase(c *VCase) *caseOut {
	o := &caseOut{stats: map[string]int{}}
	if c.Spell != 0 {
		o.stat("case-with-spelled-paths")
	}
	s := newSession(c, 0)
	defer s.close()
	tags, _ := s.repo.Versions(context.Background())

	// ---- the commit history as the model reads it (ref queries are resolved BY the model), and the pseudo-version
	// modules the ref queries of this case can resolve to, computed by the harness's own reading of "closest tagged
	// ancestor" so that the universe knows what they declare
	var refs []string
	extraNodes := c.U.pseudoNodes()
	if c.Prop == "C11" {
		seenRev := map[int]bool{}
		for _, ref := range sortedKeys(c.U.Refs) {
			rev := c.U.Refs[ref]
			refs = append(refs, "r="+ref+"="+strconv.Itoa(rev))
			if seenRev[rev] {
				continue
			}
			seenRev[rev] = true
			var anc []string
			for a := range (&vRevision{s.repo, rev}).History() {
				anc = append(anc, a.ID())
			}
			r0 := &vRevision{s.repo, rev}
			refs = append(refs, "h="+r0.ID()+"="+r0.When().UTC().Format("20060102150405")+"="+r0.PseudoID()+"="+strings.Join(anc, "."))
		}
	}
	seenQ := map[string]bool{}
	for _, op := range c.Ops {
		if strings.HasPrefix(op, "get:") {
			qp := refCleanPath(queryPathOf(op))
			if seenQ[qp] {
				continue
			}
			seenQ[qp] = true
			for _, ref := range sortedKeys(c.U.Refs) {
				if v, rev, ok := refResolveRef(&c.U, qp, ref); ok && module.IsPseudoVersion(v.Version) {
					if node := c.U.snapshot(rev, refDirOf(&c.U, qp)); node != nil {
						extraNodes[v] = node
					}
				}
			}
		}
	}
	extraReqs := map[VMod][]VMod{}
	for k, n := range extraNodes {
		extraReqs[k] = n.Reqs
	}
	g := refGraphOf(&c.U, extraReqs)
	o.line = "seq " + encUniverse(&c.U, 0, tags, extraNodes, refs) + " " + encReqs(c.Root) + " " + strings.Join(c.Ops, ";")

	if c.Prop == "C11" {
		judgeUpgradePrevious(o, c, s)
	}
	cur := c.Root
	var answers []string
	for step, op := range c.Ops {
		if vHangs.Load() >= vMaxHangs {
			o.stat("skipped-after-hang-budget")
			return o
		}
		switch {
		case op == "bl":
			ans := judgeBL(o, c, s, g, cur, step)
			answers = append(answers, ans)
		default:
			ans, next := judgeEdit(o, c, s, g, cur, op, step)
			answers = append(answers, ans)
			if next != nil {
				cur = next
			}
		}
	}
	stream := "mvs.buildlist"
	if c.Prop == "C11" {
		stream = "mvs.edit"
	}
	o.lines = append(o.lines, "C\t"+stream+"\t"+o.line+"\t"+strings.Join(answers, ";"))
	if c.Prop == "C10" && c.Perm != 0 {
		// the same universe with every requirement list declared in another order: the model is run on it too
		s2 := newSession(c, c.Perm)
		defer s2.close()
		r2 := runBL(c.Spell, s2.resolver("cold"), cur)
		a2 := r2.kind
		if r2.kind == "ok" {
			a2 = "ok:" + encBL(r2.bl)
		}
		line2 := "seq " + encUniverse(&c.U, c.Perm, tags, extraNodes, refs) + " " + encReqs(c.Root) + " bl"
		o.lines = append(o.lines, "C\t"+stream+"\t"+line2+"\t"+a2)
		if a2 != answers[0] {
			o.violation(c, "order-dependent", "declared order changed the build list: "+answers[0]+" vs "+a2, 0, "")
		}
		o.stat("order-permuted")
	}
	if c.Prop == "C10" && len(c.OtherRoots) > 0 {
		// resolver reuse: ONE resolver (then a fresh one over the cache it has filled) resolves a sequence of different
		// root requirement sets over the universe — A, B, (C,) A again; every answer is judged against the reference
		// of ITS root, and the model is run on every root
		seq := []map[string]VMod{c.Root}
		seq = append(seq, c.OtherRoots...)
		seq = append(seq, c.Root)
		reuse := newSession(c, 0)
		defer reuse.close()
		for _, mode := range []string{"mem", "disk"} {
			for i, root := range seq {
				got := runBL(c.Spell, reuse.resolver(mode), root)
				a := got.kind
				if got.kind == "ok" {
					a = "ok:" + encBL(got.bl)
				}
				want, ok := g.buildList(rootMods(root))
				w := "err:buildlist"
				if ok {
					w = "ok:" + encBL(want)
				}
				if a != w {
					o.violation(c, "bl-resolver-reuse", fmt.Sprintf("resolution %d of %d with one resolver (%s): root %s answered %s, reference %s",
						i+1, len(seq), mode, encReqs(root), a, w), 0, "")
				}
				o.stat("bl-reuse:" + mode)
				if mode == "mem" && i > 0 && i < len(seq)-1 {
					o.lines = append(o.lines, "C\t"+stream+"\tseq "+encUniverse(&c.U, 0, tags, extraNodes, refs)+" "+encReqs(root)+" bl\t"+a)
				}
			}
		}
	}
	if c.Prop == "C10" {
		// transient fetch failure, then a retry with the SAME resolver: the failed resolution must be an error (never a
		// shorter list), and the retry — and a fresh resolver over the cache directory the failed run left behind —
		// must give the reference answer
		want, ok := g.buildList(rootMods(c.Root))
		probe := newSession(c, 0)
		defer probe.close()
		if dry := runBL(c.Spell, probe.resolver("mem"), c.Root); ok && dry.kind == "ok" && probe.repo.fetches.Load() > 0 {
			n := probe.repo.fetches.Load()
			fault := newSession(c, 0)
			defer fault.close()
			fault.repo.failAt.Store(1 + int64((c.Perm>>7)%uint64(n)))
			failed := runBL(c.Spell, fault.resolver("disk"), c.Root)
			res := fault.resolver("disk") // one resolver for the failing attempt's successor and its retry
			fault.repo.failAt.Store(1 + int64((c.Perm>>11)%uint64(n)))
			failed2 := runBL(c.Spell, res, c.Root)
			if failed.kind == "ok" && !eqBL(failed.bl, want) || failed2.kind == "ok" && !eqBL(failed2.bl, want) {
				o.violation(c, "bl-fault-swallowed", "a fetch failed and BuildList answered a wrong list instead of an error: "+encBL(failed.bl)+" / "+encBL(failed2.bl)+" reference "+encBL(want), 0, "")
			}
			fault.repo.failAt.Store(0)
			for i, r := range []*Resolver{res, res, fault.resolver("disk")} {
				retry := runBL(c.Spell, r, c.Root)
				if retry.kind != "ok" || !eqBL(retry.bl, want) {
					a := retry.kind
					if retry.kind == "ok" {
						a = encBL(retry.bl)
					}
					o.violation(c, "bl-retry-after-fault", fmt.Sprintf("retry %d after a failed fetch (first attempts: %s, %s) answered %s, reference %s",
						i+1, failed.kind, failed2.kind, a, encBL(want)), 0, "")
					break
				}
			}
			o.stat("bl-fault:" + failed.kind)
			o.stat("bl-fault:" + failed2.kind)
		}
	}
	return o
}

// C10: the build list of `root` against reachability/max; each once; independent of map order and cache state
func judgeBL(o *caseOut, c *VCase, s *vSession, g *refGraph, root map[string]VMod, step int) string {
	first := runBL(c.Spell, s.resolver(c.Cache), root)
	o.stat("bl:" + first.kind)
	ans := first.kind
	if first.kind == "ok" {
		ans = "ok:" + encBL(first.bl)
	}
	if first.kind == "hang" || first.kind == "panic" {
		o.violation(c, "bl-"+first.kind, first.msg, step, "")
		return ans
	}
	want, ok := g.buildList(rootMods(root))
	switch {
	case !ok && first.kind == "ok":
		o.violation(c, "bl-missed-error", "a reachable requirement cannot be fetched but BuildList answered "+ans, step, "")
	case ok && first.kind != "ok":
		o.violation(c, "bl-spurious-error", "every reachable requirement exists but BuildList failed: "+first.msg, step, "")
	case ok:
		if !eqBL(first.bl, want) {
			o.violation(c, "bl-not-reachable-max", "BuildList "+encBL(first.bl)+" reference "+encBL(want), step, "")
		}
		if v, has := first.bl[""]; !has || v != "" {
			o.violation(c, "bl-root-entry", "the root entry is missing from the map", step, "")
		}
		o.stat(fmt.Sprintf("bl-size:%d", len(want)))
		// input distribution: pseudo-versions selected, digit-boundary pairs demanded
		for _, v := range want {
			if module.IsPseudoVersion(v) {
				o.stat("bl-selects-pseudo-version")
				break
			}
		}
		if seen, _ := g.reach(rootMods(root)); true {
			byPath := map[string][]string{}
			for m := range seen {
				byPath[m.Path] = append(byPath[m.Path], m.Version)
				if module.IsPseudoVersion(m.Version) {
					o.stat("bl-reaches-pseudo-version")
				}
			}
			confusing := false
			for _, vs := range byPath {
				for _, a := range vs {
					for _, b := range vs {
						if len(a) == len(b) && refCmp(a, b) < 0 && strings.Compare(a, b) > 0 {
							confusing = true
						}
					}
				}
			}
			if confusing {
				o.stat("bl-demands-digit-boundary-pair")
			}
		}
	}
	// each once, on the list the third-party algorithm returns
	raw := runRawBL(s.resolver("mem"), root)
	if raw.kind == "ok" {
		seen := map[string]bool{}
		for _, m := range raw.list {
			if seen[m.Path] {
				o.violation(c, "bl-duplicate-path", fmt.Sprint(raw.list), step, "")
			}
			seen[m.Path] = true
		}
	}
	if raw.kind != first.kind {
		o.violation(c, "bl-unstable", "list "+raw.kind+" map "+first.kind, step, "")
	}
	// map iteration order / cache state: every other way of asking gives the same answer
	for _, mode := range []string{"cold", "disk", "disk", "mem", "mem"} {
		again := runBL(c.Spell, s.resolver(mode), root)
		a := again.kind
		if again.kind == "ok" {
			a = "ok:" + encBL(again.bl)
		}
		if a != ans {
			o.violation(c, "bl-cache-or-order-dependent", "first ("+c.Cache+") "+ans+" then ("+mode+") "+a, step, "")
		}
		o.stat("bl-repeat:" + mode)
	}
	return ans
}

func pathsOf(r map[string]VMod) map[string][]string {
	out := map[string][]string{}
	for _, n := range sortedKeys(r) {
		out[r[n].Path] = append(out[r[n].Path], n)
	}
	return out
}

// every canonical version tag of the universe, with the revision it points at
func (u *VUniverse) allTags() []struct {
	VMod
	Rev int
} {
	var out []struct {
		VMod
		Rev int
	}
	for i := range u.Nodes {
		n := &u.Nodes[i]
		out = append(out, struct {
			VMod
			Rev int
		}{VMod{u.nodePath(n), n.Version}, i + 1})
	}
	for _, t := range u.MoreTags {
		out = append(out, struct {
			VMod
			Rev int
		}{VMod{project.JoinPathVersion(path.Join(u.Repo, t.Base), semver.Major(t.Version)), t.Version}, t.Rev})
	}
	return out
}

// the greatest release tag of the same major line at or above the current version
func refLatestRelease(u *VUniverse, p, cur string) string {
	best := cur
	for _, t := range u.allTags() {
		if t.Path != p || refMajor(t.Version) != refMajor(cur) || strings.Contains(t.Version, "-") {
			continue
		}
		if refCmp(t.Version, best) > 0 {
			best = t.Version
		}
	}
	return best
}

// C11: one edit operation on `root`; returns the canonical answer and the new requirements (nil when unchanged)
func judgeEdit(o *caseOut, c *VCase, s *vSession, g *refGraph, root map[string]VMod, op string, step int) (string, map[string]VMod) {
	isGet := strings.HasPrefix(op, "get:")
	kindOp := op
	if isGet {
		kindOp = "get"
	}
	var resolved VMod
	var branch string
	var haveObs bool
	if isGet {
		resolved, branch, haveObs = observeGet(s.resolver("mem"), root, op[4:])
	}
	out := runEdit(c.Spell, s.resolver(c.Cache), root, op)
	o.stat(kindOp + ":" + out.kind)
	if out.kind == "hang" || out.kind == "panic" {
		o.violation(c, kindOp+"-"+out.kind, fmt.Sprintf("%s on %s did not return within %v %s", op, encReqs(root), vTimeout, out.msg), step, "")
		return out.kind, nil
	}
	judgeFaults(o, c, g, root, op, out, step, branch)
	if out.kind != "ok" {
		return out.kind, nil
	}
	next := out.reqs
	ans := "ok:" + encReqs(next)
	// what the edit returns is written to dawn.toml by the CLI: dawn must be able to load it again
	if err := cfgLoads(next); err != nil {
		o.violation(c, kindOp+"-writes-unloadable-config", fmt.Sprintf("%s on %s returned %s, which project.LoadConfigFile rejects: %v",
			op, encReqs(root), encReqs(next), err), step, "")
		return ans, nil
	}

	before, okB := g.buildList(rootMods(root))
	after, okA := g.buildList(rootMods(next))
	landed, stable := "e", "e"
	if isGet && haveObs {
		if okA {
			landed = "0"
			if after[resolved.Path] == resolved.Version {
				landed = "1"
			}
		}
		// does the query resolve to the same version against the new build list?
		stable = "e"
		if again, _, ok := observeGet(s.resolver("mem"), next, op[4:]); ok {
			stable = "0"
			if again == resolved {
				stable = "1"
			}
		}
		ans += "|" + branch + "|" + encMod(resolved) + "|" + landed + "|" + stable
		if queryKind(op[4:]) == "ref" {
			if want, _, ok := refResolveRef(&c.U, refCleanPath(queryPathOf(op)), parseVersionQuery(op[4:]).query); ok && want != resolved {
				o.violation(c, "get-ref-resolution", fmt.Sprintf("%s resolved %s; the revision it names is %s (its own tag, or a pseudo-version on the closest tagged ancestor)",
					op, encMod(resolved), encMod(want)), step, "")
			}
		}
		// whatever the query kind, the version it resolves to is a version of the project that was asked for
		if want := refCleanPath(queryPathOf(op)); resolved.Path != want {
			o.violation(c, "get-resolved-other-project", fmt.Sprintf("%s on %s resolved %s, a version of another project than %s",
				op, encReqs(root), encMod(resolved), want), step, "")
		}
		if queryKind(op[4:]) == "patch" && okB {
			if cur, has := before[resolved.Path]; has {
				pc, ok1 := refParse(cur)
				pr, ok2 := refParse(resolved.Version)
				if ok1 && ok2 && (pc.maj != pr.maj || pc.min != pr.min || refCmp(resolved.Version, cur) < 0) {
					o.violation(c, "get-patch-left-its-line", fmt.Sprintf("%s with %s selected resolved %s", op, cur, resolved.Version), step, "")
				}
			}
		}
		o.stat("get-branch:" + branch)
		o.stat("get-query:" + queryKind(op[4:]))
	} else if isGet {
		ans += "|?"
	}

	// determinism (map iteration order inside the edit): a second and third run from the same requirements
	repeats := 2
	for _, names := range pathsOf(root) {
		if len(names) > 1 {
			repeats = 6 // two names for one path: the place where map order has mattered (D14)
		}
	}
	for k := 0; k < repeats; k++ {
		again := runEdit(c.Spell, s.resolver("mem"), root, op)
		if again.kind != "ok" || encReqs(again.reqs) != encReqs(next) {
			a := again.kind
			if again.kind == "ok" {
				a = encReqs(again.reqs)
			}
			o.violation(c, kindOp+"-nondeterministic", fmt.Sprintf("%s on %s gave %s and then %s", op, encReqs(root), encReqs(next), a), step, "")
			break
		}
	}

	if !okB || !okA {
		// a universe with a requirement that cannot be fetched is outside what C11 speaks about (no build list)
		o.stat(kindOp + "-unfetchable-graph")
		return ans, next
	}
	// the implementation's own build list of the result agrees with the reference (C10 on the new graph)
	if implAfter := runBL(c.Spell, s.resolver("mem"), next); implAfter.kind != "ok" || !eqBL(implAfter.bl, after) {
		o.violation(c, kindOp+"-result-buildlist", "BuildList of the result disagrees with the reference: "+implAfter.kind+" "+encBL(implAfter.bl)+" vs "+encBL(after), step, "")
	}

	lowered := func() string {
		for _, p := range sortedKeys(before) {
			if v, has := after[p]; !has || refCmp(v, before[p]) < 0 {
				return fmt.Sprintf("%s was %s and is now %q", p, before[p], v)
			}
		}
		return ""
	}
	switch {
	case op == "tidy":
		if !eqBL(before, after) {
			o.violation(c, "tidy-changed-buildlist", fmt.Sprintf("tidy on %s returned %s: build list %s became %s", encReqs(root), encReqs(next), encBL(before), encBL(after)), step, "")
		}
	case op == "upall":
		if l := lowered(); l != "" {
			o.violation(c, "upall-lowered", fmt.Sprintf("upgrade-all on %s returned %s: %s", encReqs(root), encReqs(next), l), step, "")
		}
		for _, p := range sortedKeys(before) {
			if want := refLatestRelease(&c.U, p, before[p]); refCmp(after[p], want) < 0 {
				o.violation(c, "upall-not-latest", fmt.Sprintf("%s stays at %s although %s is tagged", p, after[p], want), step, "")
			}
		}
	case isGet && haveObs:
		curV, present := before[resolved.Path]
		cmp := 1
		if present {
			cmp = refCmp(resolved.Version, curV)
		}
		got, has := after[resolved.Path]
		if cmp >= 0 {
			// add / upgrade / no-op: contains the resolved version, lowers nothing
			if !has || refCmp(got, resolved.Version) < 0 {
				o.violation(c, "get-missing-resolved", fmt.Sprintf("%s on %s resolved %s but the new build list has %q", op, encReqs(root), encMod(resolved), got), step, "")
			} else if got != resolved.Version {
				// above the resolved version: only legitimate when the resolved version itself demands it
				from, _ := g.reach([]VMod{resolved})
				if !from[VMod{resolved.Path, got}] && !(present && got == curV) {
					o.violation(c, "get-above-resolved", fmt.Sprintf("%s resolved %s, build list has %s which %s does not require", op, encMod(resolved), got, encMod(resolved)), step, "")
				}
				o.stat("get-above-resolved-by-own-requirement")
			}
			if l := lowered(); l != "" {
				o.violation(c, "get-lowered", fmt.Sprintf("%s on %s returned %s: %s", op, encReqs(root), encReqs(next), l), step, "")
			}
		} else {
			// downgrade: at or below the requested version (absent counts as below)
			if has && refCmp(got, resolved.Version) > 0 {
				o.violation(c, "get-downgrade-above", fmt.Sprintf("%s on %s resolved %s but the new build list still has %s", op, encReqs(root), encMod(resolved), got), step, "")
			}
			if has && got == resolved.Version {
				o.stat("get-downgrade-landed")
			} else {
				o.stat("get-downgrade-did-not-land")
			}
		}
	}

	// names: existing names keep their project while it survives; a project that was already required gets no
	// new name; every new project gets exactly one name
	oldP, newP := pathsOf(root), pathsOf(next)
	for _, p := range sortedKeys(newP) {
		if olds, was := oldP[p]; was {
			if strings.Join(olds, ",") != strings.Join(newP[p], ",") {
				o.violation(c, kindOp+"-names-not-preserved", fmt.Sprintf("%s: %s was named %v and is now named %v", op, p, olds, newP[p]), step, "")
			}
		} else {
			if len(newP[p]) != 1 {
				o.violation(c, kindOp+"-new-name-not-unique", fmt.Sprintf("%s: new project %s has names %v", op, p, newP[p]), step, "")
			}
			if _, clash := root[newP[p][0]]; clash {
				// the old holder of that name is no longer required (otherwise names-not-preserved fires above):
				// the name is free in the new file, so this is "unique", but worth counting
				o.stat(kindOp + "-new-name-reuses-dropped-name")
			}
			o.stat(kindOp + "-new-name")
		}
	}
	for _, n := range sortedKeys(next) {
		if strings.TrimSpace(n) == "" {
			o.violation(c, kindOp+"-empty-name", "", step, "")
		}
	}
	// every project of the new build list that the new requirements must name is named: checked through the
	// build lists above (a lost requirement lowers or removes a project)

	// repeating the operation changes nothing
	twice := runEdit(c.Spell, s.resolver(c.Cache), next, op)
	o.stat(kindOp + "-again:" + twice.kind)
	switch {
	case twice.kind == "hang" || twice.kind == "panic":
		o.violation(c, kindOp+"-"+twice.kind, fmt.Sprintf("second %s on %s did not return %s", op, encReqs(next), twice.msg), step, "")
	case twice.kind != "ok" || encReqs(twice.reqs) != encReqs(next):
		a := twice.kind
		if twice.kind == "ok" {
			a = encReqs(twice.reqs)
		}
		key := ""
		if isGet && haveObs && branch == "down" && landed != "1" {
			key = "get-downgrade-did-not-land"
		} else if isGet && haveObs && (branch == "add" || branch == "up") && landed != "1" {
			key = "get-landed-above-resolved"
		} else if isGet && haveObs && landed == "1" && stable == "0" {
			key = "get-query-reresolves"
		}
		o.violation(c, kindOp+"-not-idempotent", fmt.Sprintf("%s on %s gave %s; repeated on that it gave %s", op, encReqs(root), encReqs(next), a), step, key)
	}
	return ans, next
}

// write the requirements as the CLI does and load them back
func cfgLoads(r map[string]VMod) error {
	out := map[string]project.RequirementConfig{}
	for n, q := range r {
		out[n] = project.RequirementConfig{Path: q.Path, Version: q.Version}
	}
	f, err := os.CreateTemp(vScratch, "result-*.toml")
	if err != nil {
		panic(err)
	}
	f.Close()
	defer os.Remove(f.Name())
	if err := project.WriteConfigFile(f.Name(), &project.Config{Requirements: out}); err != nil {
		return err
	}
	_, err = project.LoadConfigFile(f.Name())
	return err
}

// C11 under injected faults: the repository cannot be dialled / does not list its tags / fails a fetch — once, or for
// as long as the fault lasts — while an edit runs, over a cold or a warm module cache. The edit must either return an
// error or return exactly what it returns without the fault (`clean`, itself judged against the model and the
// reference); it must not touch the requirements it was given; and once the fault is gone the same edit — with the
// resolver that saw the fault and with a fresh one over the same cache — must give the fault-free result.
func judgeFaults(o *caseOut, c *VCase, g *refGraph, root map[string]VMod, op string, clean opOut, step int, branch string) {
	kindOp := op
	if strings.HasPrefix(op, "get:") {
		kindOp = "get"
	}
	show := func(r opOut) string {
		if r.kind == "ok" {
			return "ok:" + encReqs(r.reqs)
		}
		return r.kind
	}
	h := c.Perm ^ c.Spell ^ uint64(step+1)*0x9E3779B97F4A7C15
	for _, ch := range []byte(op) {
		h = h*1099511628211 + uint64(ch)
	}
	pick := &vRng{h}
	rounds := 2
	if vFaultEvery > 1 {
		if pick.next()%vFaultEvery != 0 {
			o.stat("fault-skipped-in-quick")
			return
		}
		rounds = 1
	}
	faults := []string{"dial-once", "list-once", "fetch-once", "dial-down", "list-down", "fetch-down"}
	for round := 0; round < rounds; round++ {
		fault := faults[pick.below(len(faults))]
		warm := pick.chance(1, 2)
		fs := newSession(c, 0)
		// calibration on a twin session: how many dials / listings / fetches the edit makes
		twin := newSession(c, 0)
		if warm {
			runBL(c.Spell, fs.resolver("disk"), root)
			runBL(c.Spell, twin.resolver("disk"), root)
		}
		d0, l0, f0 := twin.repo.dials.Load(), twin.repo.lists.Load(), twin.repo.fetches.Load()
		runEdit(c.Spell, twin.resolver("disk"), root, op)
		nd, nl, nf := twin.repo.dials.Load()-d0, twin.repo.lists.Load()-l0, twin.repo.fetches.Load()-f0
		twin.close()
		at := func(n int64) int64 {
			if n <= 0 {
				return 1
			}
			return 1 + int64(pick.below(int(n)))
		}
		switch fault {
		case "dial-once":
			fs.repo.dialAt.Store(at(nd))
		case "list-once":
			fs.repo.listAt.Store(at(nl))
		case "fetch-once":
			fs.repo.failAt.Store(at(nf))
		case "dial-down":
			fs.repo.dialDown.Store(true)
		case "list-down":
			fs.repo.listDown.Store(true)
		case "fetch-down":
			fs.repo.down.Store(true)
		}
		cache := "cold"
		if warm {
			cache = "warm"
		}
		o.stat("fault:" + fault + ":" + cache)
		res := fs.resolver("disk")
		given := encReqs(root)
		faulted := runEdit(c.Spell, res, root, op)
		o.stat("fault-outcome:" + strings.SplitN(faulted.kind, ":", 2)[0])
		switch {
		case faulted.kind == "hang" || faulted.kind == "panic":
			o.violation(c, kindOp+"-"+faulted.kind+"-under-fault", fmt.Sprintf("%s on %s under %s (%s cache): %s %s", op, given, fault, cache, faulted.kind, faulted.msg), step, "")
		case faulted.kind == "ok" && show(faulted) != show(clean):
			key := ""
			if branch == "down" {
				// mvs.Downgrade treats "cannot load the requirements of m" as "m is unusable" and excludes it (D31)
				key = "get-downgrade-swallows-load-error"
			}
			o.violation(c, kindOp+"-fault-swallowed", fmt.Sprintf("%s on %s under %s (%s cache) reported success with %s; without the fault it gives %s",
				op, given, fault, cache, show(faulted), show(clean)), step, key)
		}
		if encReqs(root) != given {
			o.violation(c, kindOp+"-input-modified", fmt.Sprintf("%s under %s changed the requirements it was given: %s became %s", op, fault, given, encReqs(root)), step, "")
		}
		// the fault clears
		fs.repo.dialAt.Store(0)
		fs.repo.listAt.Store(0)
		fs.repo.failAt.Store(0)
		fs.repo.dialDown.Store(false)
		fs.repo.listDown.Store(false)
		fs.repo.down.Store(false)
		for i, r := range []*Resolver{res, fs.resolver("disk")} {
			again := runEdit(c.Spell, r, root, op)
			if show(again) != show(clean) && !(strings.HasPrefix(clean.kind, "err") && strings.HasPrefix(again.kind, "err")) {
				o.violation(c, kindOp+"-after-fault", fmt.Sprintf("%s on %s after %s (%s cache) cleared, %s resolver: %s; without any fault it gives %s",
					op, given, fault, cache, []string{"same", "fresh"}[i], show(again), show(clean)), step, "")
				break
			}
		}
		fs.close()
	}
}

// Reqs.Upgrade and Reqs.Previous on every tagged version of every project, against what is certain of them whatever
// the policy on prereleases: the answer is a version of the same project and of the same major version line (v0.x and
// v1.x share a path but are different lines), it is the version itself or one of the project's canonical tags, Upgrade
// never goes down and Previous goes strictly down or answers "none"
func judgeUpgradePrevious(o *caseOut, c *VCase, s *vSession) {
	reqs := newReqs(&mvsProject{Version: module.Version{}}, s.resolver("mem"))
	tagsOf := map[string]map[string]bool{}
	for _, t := range c.U.allTags() {
		if tagsOf[t.Path] == nil {
			tagsOf[t.Path] = map[string]bool{}
		}
		tagsOf[t.Path][t.Version] = true
	}
	ctx := context.Background()
	for i := range c.U.Nodes {
		n := &c.U.Nodes[i]
		m := module.Version{Path: c.U.nodePath(n), Version: n.Version}
		type res struct {
			up, prev module.Version
			e1, e2   error
		}
		ch := make(chan res, 1)
		go func() {
			defer func() {
				if r := recover(); r != nil {
					ch <- res{e1: fmt.Errorf("panic: %v", r)}
				}
			}()
			var r res
			r.up, r.e1 = reqs.Upgrade(ctx, m)
			r.prev, r.e2 = reqs.Previous(ctx, m)
			ch <- r
		}()
		var r res
		select {
		case r = <-ch:
		case <-time.After(vTimeout):
			o.violation(c, "upgrade-previous-hang", encMod(VMod{m.Path, m.Version}), 0, "")
			return
		}
		o.stat("upgrade-previous-judged")
		if r.e1 != nil || r.e2 != nil {
			o.violation(c, "upgrade-previous-error", fmt.Sprintf("%s: %v %v", encMod(VMod{m.Path, m.Version}), r.e1, r.e2), 0, "")
			continue
		}
		bad := ""
		switch {
		case r.up.Path != m.Path || r.prev.Path != m.Path:
			bad = "another project"
		case r.up.Version != m.Version && !tagsOf[m.Path][r.up.Version]:
			bad = "Upgrade answered a version that is not a canonical tag of the project"
		case refMajor(r.up.Version) != refMajor(m.Version):
			bad = "Upgrade left the major version line"
		case refCmp(r.up.Version, m.Version) < 0:
			bad = "Upgrade went down"
		case r.prev.Version != "none" && !tagsOf[m.Path][r.prev.Version]:
			bad = "Previous answered a version that is not a canonical tag of the project"
		case r.prev.Version != "none" && refMajor(r.prev.Version) != refMajor(m.Version):
			bad = "Previous left the major version line"
		case r.prev.Version != "none" && refCmp(r.prev.Version, m.Version) >= 0:
			bad = "Previous did not go down"
		}
		if bad != "" {
			o.violation(c, "upgrade-previous-wrong", fmt.Sprintf("%s: %s — Upgrade %s, Previous %s", bad, encMod(VMod{m.Path, m.Version}), r.up.Version, r.prev.Version), 0, "")
		}
	}
}

func queryKind(q string) string {
	vq := parseVersionQuery(q)
	switch vq.query {
	case "", "latest":
		return "latest"
	case "upgrade", "patch":
		return vq.query
	}
	switch vq.query[0] {
	case '<', '>':
		return "range"
	case 'v':
		if semver.IsValid(vq.query) {
			if semver.Canonical(vq.query) == vq.query {
				return "version"
			}
			return "prefix"
		}
	}
	return "ref"
}

// ------------------------------------------------------------------------------------------------ semver stream

func semverLines(r *vRng, n int) []string {
	atoms := []string{"v1.2.3", "v1.2", "v1", "v0.0.0", "v1.2.3-rc.1", "v1.2.3-rc.2", "v1.2.3-rc.10", "v1.2.3-alpha", "v1.2.3-alpha.1",
		"v1.2.3-1", "v1.2.3-2", "v1.2.3-10", "v1.2.3-a-b", "v1.2.3-0.19700101000140-3", "v1.2.4-0.19700101000140-3", "v1.0.0-19700101000140-3",
		"v01.2.3", "v1.02.3", "v1.2.03", "v1.2.3-01", "v1.2.3-", "v1.2.3-a..b", "v1.2.3+meta", "v1.2.3-rc.1+meta", "v1.2+meta", "1.2.3", "", "none",
		"v1.2.3.4", "v1.2.x", "v10.20.30", "v2.0.0", "v1.10.0", "v1.9.0", "v1.2.3-rc", "v1.2.3-RC", "v1.2.3-0", "v1.2.3-00", "v1.2.3-0a", "v1..3", "v", "v1.",
		"v1.2.3-é", "v1.2.3+", "v1.2.3-a+b+c", "v1.2.3--", "v1.2.3-a_b",
		// equal-length strings whose text order is not their version order
		"v1.9.10", "v1.10.0", "v1.2.10", "v1.10.2", "v10.0.0", "v9.0.10", "v9.10.0", "v1.19.0", "v1.20.0", "v1.0.100", "v1.100.0",
		"v1.2.3-rc.9", "v1.2.3-rc.11", "v1.2.3-9.ab", "v1.2.3-10.a", "v1.0.9-rc.10", "v1.0.10-rc.1", "v1.2.3-9", "v1.2.3-99", "v1.2.3-100",
		"v1.2.3-0.19700101000140-9", "v1.2.3-0.19700101000140-10", "v1.2.4-0.19700101001640-10"}
	var out []string
	emit := func(s string) {
		ans := "invalid"
		if semver.IsValid(s) {
			ans = "ok " + semver.Canonical(s) + " " + semver.Major(s) + " " + semver.MajorMinor(s) + " [" + semver.Prerelease(s) + "]"
		}
		out = append(out, "C\tmvs.semver\tsv "+vhex(s)+"\t"+ans)
	}
	for _, a := range atoms {
		emit(a)
	}
	// dawn's own comparison (reqs.go cmpVersion) against the reference order, on canonical versions and the two sentinels
	judge := func(a, b string) {
		canon := func(x string) bool { return x == "" || x == "none" || (semver.IsValid(x) && semver.Canonical(x) == x) }
		if !canon(a) || !canon(b) {
			return
		}
		if got, want := cmpVersion(a, b), refCmp(a, b); got != want {
			in, _ := json.Marshal(map[string]any{"semver_pair": []string{a, b}})
			out = append(out, "V\t"+fmt.Sprintf(`{"prop":"C10","kind":"cmpVersion-wrong-order","detail":%q,"step":0,"input":%s}`,
				fmt.Sprintf("cmpVersion(%q, %q) = %d, version precedence says %d", a, b, got, want), in))
		}
	}
	for _, a := range atoms {
		for _, b := range atoms {
			out = append(out, fmt.Sprintf("C\tmvs.semver\tcmp %s %s\t%d %d", vhex(a), vhex(b), semver.Compare(a, b), cmpVersion(a, b)))
			judge(a, b)
		}
	}
	gen := func() string {
		var b strings.Builder
		b.WriteString("v")
		num := func() {
			switch r.below(8) {
			case 0:
				b.WriteString("0")
			case 1:
				b.WriteString("01")
			case 2:
				b.WriteString(vPick(r, []string{"9", "10", "19", "20", "99", "100", "11"}))
			default:
				b.WriteString(strconv.Itoa(r.below(12)))
			}
		}
		num()
		k := r.below(4)
		if k >= 1 {
			b.WriteString(".")
			num()
		}
		if k >= 2 {
			b.WriteString(".")
			num()
		}
		if k >= 3 {
			b.WriteString("-")
			for i, n := 0, 1+r.below(3); i < n; i++ {
				if i > 0 {
					b.WriteString(".")
				}
				b.WriteString(vPick(r, []string{"0", "1", "2", "10", "a", "b", "rc", "alpha", "a-1", "00", "0a", "", "9", "11", "99", "100", "9a"}))
			}
		}
		if r.chance(1, 8) {
			b.WriteString("+" + vPick(r, []string{"m", "1.2", "", "a..b"}))
		}
		return b.String()
	}
	for i := 0; i < n; i++ {
		a, b := gen(), gen()
		if r.chance(1, 3) {
			// same shape, one component bumped across a digit boundary
			b = strings.Replace(a, vPick(r, []string{"9", "1", "2", "0"}), vPick(r, []string{"10", "9", "19", "2"}), 1)
		}
		emit(a)
		judge(a, b)
		judge(b, a)
		out = append(out, fmt.Sprintf("C\tmvs.semver\tcmp %s %s\t%d %d", vhex(a), vhex(b), semver.Compare(a, b), cmpVersion(a, b)))
		// the reference order used by the judge agrees with the library on canonical versions
		if semver.IsValid(a) && semver.IsValid(b) && semver.Canonical(a) == a && semver.Canonical(b) == b {
			if refCmp(a, b) != semver.Compare(a, b) {
				out = append(out, "V\t"+fmt.Sprintf(`{"prop":"C10","kind":"reference-semver-disagrees","detail":%q,"input":{"a":%q,"b":%q}}`, "reference order differs from x/mod/semver", a, b))
			}
		}
	}
	return out
}

func vhex(s string) string {
	if s == "" {
		return "-"
	}
	return fmt.Sprintf("%x", s)
}

// ------------------------------------------------------------------------------------------------ directed cases

// the failing inputs of DESIGN.md §3 (D13, D14, D15) and the shapes named by the properties, always run first
func directedCases(prop string) []*VCase {
	repo := "github.com/v/u"
	P := func(b string) string { return repo + "/" + b }
	var out []*VCase
	if prop == "C11" {
		// D13: a v1.1.0 → b v1.2.0 ; root {a v1.1.0, b v1.2.0}; get b@v1.1.0 must drop a, which has no older tag
		out = append(out, &VCase{Prop: prop, Cache: "cold", U: VUniverse{Repo: repo, DefaultRef: "main", Refs: map[string]int{"main": 3},
			Nodes: []VNode{{Base: "b", Version: "v1.1.0"}, {Base: "b", Version: "v1.2.0"}, {Base: "a", Version: "v1.1.0", Reqs: []VMod{{P("b"), "v1.2.0"}}}}},
			Root: map[string]VMod{"a": {P("a"), "v1.1.0"}, "b": {P("b"), "v1.2.0"}}, Ops: []string{"get:" + P("b") + "@v1.1.0"}})
		// D14: two names for one path at different versions; an unrelated add must not lower it
		out = append(out, &VCase{Prop: prop, Cache: "cold", U: VUniverse{Repo: repo, DefaultRef: "main", Refs: map[string]int{"main": 3},
			Nodes: []VNode{{Base: "p0", Version: "v1.2.0"}, {Base: "p0", Version: "v1.4.0"}, {Base: "p1", Version: "v1.4.0"}}},
			Root: map[string]VMod{"n0": {P("p0"), "v1.4.0"}, "n1": {P("p0"), "v1.2.0"}}, Ops: []string{"get:" + P("p1") + "@v1.4.0"}})
		// D14, second face: the lower alias is the only one that brings q in
		out = append(out, &VCase{Prop: prop, Cache: "cold", U: VUniverse{Repo: repo, DefaultRef: "main", Refs: map[string]int{"main": 4},
			Nodes: []VNode{{Base: "q", Version: "v1.0.0"}, {Base: "p0", Version: "v1.2.0", Reqs: []VMod{{P("q"), "v1.0.0"}}}, {Base: "p0", Version: "v1.4.0"}, {Base: "p1", Version: "v1.4.0"}}},
			Root: map[string]VMod{"n0": {P("p0"), "v1.4.0"}, "n1": {P("p0"), "v1.2.0"}}, Ops: []string{"get:" + P("p1") + "@v1.4.0", "get:" + P("p0") + "@v1.4.0"}})
		// D15: p0 v1.1.0 needs p1 v1.2.0, newer than the current list: the downgrade cannot land
		out = append(out, &VCase{Prop: prop, Cache: "cold", U: VUniverse{Repo: repo, DefaultRef: "main", Refs: map[string]int{"main": 4},
			Nodes: []VNode{{Base: "p1", Version: "v1.1.0"}, {Base: "p1", Version: "v1.2.0"}, {Base: "p0", Version: "v1.1.0", Reqs: []VMod{{P("p1"), "v1.2.0"}}}, {Base: "p0", Version: "v1.2.0"}}},
			Root: map[string]VMod{"n0": {P("p0"), "v1.2.0"}, "n1": {P("p1"), "v1.1.0"}}, Ops: []string{"get:" + P("p0") + "@v1.1.0"}})
		// two NEW requirements with the same configured name in ONE operation: a v1.0.0 requires x and y (both named
		// "lib"), a v1.1.0 requires nothing — upgrade-all keeps x and y (required by the old a) and must name them apart
		out = append(out, &VCase{Prop: prop, Cache: "cold", U: VUniverse{Repo: repo, DefaultRef: "main", Refs: map[string]int{"main": 4},
			Nodes: []VNode{{Base: "x", Version: "v1.0.0", Name: "lib"}, {Base: "y", Version: "v1.0.0", Name: "lib"},
				{Base: "a", Version: "v1.0.0", Reqs: []VMod{{P("x"), "v1.0.0"}, {P("y"), "v1.0.0"}}}, {Base: "a", Version: "v1.1.0"}}},
			Root: map[string]VMod{"a": {P("a"), "v1.0.0"}}, Ops: []string{"upall", "tidy"}})
		// patch query in a repository where a sibling project has a higher patch of the same major.minor
		out = append(out, &VCase{Prop: prop, Cache: "disk", U: VUniverse{Repo: repo, DefaultRef: "main", Refs: map[string]int{"main": 4},
			Nodes: []VNode{{Base: "d", Version: "v1.2.0"}, {Base: "d", Version: "v1.2.1"}, {Base: "e", Version: "v1.2.5"}, {Base: "e", Version: "v1.2.0"}}},
			Root: map[string]VMod{"d": {P("d"), "v1.2.0"}}, Ops: []string{"get:" + P("d") + "@patch", "get:" + P("e") + "@patch", "get:" + P("d") + "@patch"}})
		// one path, two major version lines (v0.x and v1.x have no path suffix): upgrade-all from v0.x stays in v0, and a
		// downgrade that has to leave p's oldest v1 drops p rather than stepping into v0
		v01 := VUniverse{Repo: repo, DefaultRef: "main", Refs: map[string]int{"main": 6},
			Nodes: []VNode{{Base: "b", Version: "v1.1.0"}, {Base: "b", Version: "v1.2.0"}, {Base: "p", Version: "v0.8.0"}, {Base: "p", Version: "v0.9.0"},
				{Base: "p", Version: "v1.0.0", Reqs: []VMod{{P("b"), "v1.2.0"}}}, {Base: "p", Version: "v1.1.0", Reqs: []VMod{{P("b"), "v1.2.0"}}}}}
		out = append(out, &VCase{Prop: prop, Cache: "cold", U: v01, Root: map[string]VMod{"p": {P("p"), "v0.8.0"}}, Ops: []string{"upall", "upall"}})
		out = append(out, &VCase{Prop: prop, Cache: "cold", U: v01, Root: map[string]VMod{"p": {P("p"), "v1.0.0"}, "b": {P("b"), "v1.2.0"}},
			Ops: []string{"get:" + P("b") + "@v1.1.0", "bl"}})
		// D33: a branch ahead of the newest tag, and a branch AT a tagged commit, with an older tag further back: the ref
		// resolves on the closest tagged ancestor (v1.4.1-0.…, resp. the tag v1.4.0 itself), so `get p@main` is an upgrade
		// resp. a no-op — not a downgrade to a pseudo-version based on v1.0.0
		refU := VUniverse{Repo: repo, DefaultRef: "main", Refs: map[string]int{"main": 4, "rel": 2},
			Nodes: []VNode{{Base: "p", Version: "v1.0.0"}, {Base: "p", Version: "v1.4.0"}, {Base: "q", Version: "v1.0.0", Reqs: []VMod{{P("p"), "v1.4.0"}}},
				{Base: "q", Version: "v1.1.0", Reqs: []VMod{{P("p"), "v1.4.0"}}}}}
		out = append(out, &VCase{Prop: prop, Cache: "cold", U: refU, Root: map[string]VMod{"p": {P("p"), "v1.4.0"}, "q": {P("q"), "v1.0.0"}},
			Ops: []string{"get:" + P("p") + "@main", "get:" + P("p") + "@rel", "get:" + P("q") + "@main"}})
		// new names: the natural name is taken twice
		out = append(out, &VCase{Prop: prop, Cache: "disk", U: VUniverse{Repo: repo, DefaultRef: "main", Refs: map[string]int{"main": 3},
			Nodes: []VNode{{Base: "a", Version: "v1.0.0"}, {Base: "b", Version: "v1.0.0", Name: "lib"}, {Base: "c", Version: "v2.0.0", Name: "lib"}}},
			Root: map[string]VMod{"lib": {P("a"), "v1.0.0"}, "lib-1": {P("a"), "v1.0.0"}}, Ops: []string{"get:" + P("b"), "get:" + P("c") + "@v2", "tidy", "upall"}})
	} else {
		// diamond, cycle, two majors of one project
		out = append(out, &VCase{Prop: prop, Cache: "cold", Perm: 7, U: VUniverse{Repo: repo, DefaultRef: "main", Refs: map[string]int{"main": 7},
			Nodes: []VNode{{Base: "d", Version: "v1.0.0"}, {Base: "d", Version: "v1.1.0", Reqs: []VMod{{P("a"), "v1.0.0"}}}, {Base: "d", Version: "v2.0.0"},
				{Base: "b", Version: "v1.0.0", Reqs: []VMod{{P("d"), "v1.0.0"}, {P("d") + "@v2", "v2.0.0"}}}, {Base: "c", Version: "v1.0.0", Reqs: []VMod{{P("d"), "v1.1.0"}}},
				{Base: "a", Version: "v1.0.0", Reqs: []VMod{{P("b"), "v1.0.0"}, {P("c"), "v1.0.0"}}}, {Base: "a", Version: "v1.1.0-rc.1"}}},
			Root: map[string]VMod{"a": {P("a"), "v1.0.0"}}, Ops: []string{"bl"}})
		// a diamond on versions whose text order is the wrong one: v1.9.10 < v1.10.0 and v1.2.10 < v1.10.2
		out = append(out, &VCase{Prop: prop, Cache: "cold", Perm: 11, U: VUniverse{Repo: repo, DefaultRef: "main", Refs: map[string]int{"main": 8},
			Nodes: []VNode{{Base: "d", Version: "v1.9.10"}, {Base: "d", Version: "v1.10.0"}, {Base: "e", Version: "v1.2.10"}, {Base: "e", Version: "v1.10.2"},
				{Base: "e", Version: "v1.2.0-9.ab"}, {Base: "b", Version: "v1.0.0", Reqs: []VMod{{P("d"), "v1.10.0"}, {P("e"), "v1.2.10"}}},
				{Base: "c", Version: "v1.0.0", Reqs: []VMod{{P("d"), "v1.9.10"}, {P("e"), "v1.10.2"}}},
				{Base: "a", Version: "v1.0.0", Reqs: []VMod{{P("b"), "v1.0.0"}, {P("c"), "v1.0.0"}}}}},
			Root: map[string]VMod{"a": {P("a"), "v1.0.0"}}, Ops: []string{"bl"}})
		// several projects in one repository, one required at a pseudo-version after a sibling has been looked up:
		// app (tagged) → lib as of revision 4, whose dawn.toml requires tool; the sibling directories exist at that revision
		multi := VUniverse{Repo: repo, DefaultRef: "main", Refs: map[string]int{"main": 5},
			Nodes: []VNode{{Base: "app", Version: "v0.9.0"}, {Base: "lib", Version: "v1.0.0"}, {Base: "tool", Version: "v1.0.0"},
				{Base: "lib", Version: "v1.1.0", Reqs: []VMod{{P("tool"), "v1.0.0"}}},
				{Base: "app", Version: "v1.0.0", Reqs: []VMod{{P("lib"), vPseudoVersion("v1.1.0", 4)}}},
				{Base: "", Version: "v1.0.0", Name: "rootproj", Reqs: []VMod{{P("lib"), vPseudoVersion("v1.1.0", 4)}}}},
			Pseudo: []VPseudo{{Base: "lib", Version: vPseudoVersion("v1.1.0", 4), Rev: 4}}}
		for _, cache := range []string{"cold", "disk", "mem"} {
			out = append(out, &VCase{Prop: prop, Cache: cache, Perm: 5, U: multi, Root: map[string]VMod{"app": {P("app"), "v1.0.0"}}, Ops: []string{"bl"}})
			// the other lookup order: the pseudo-version first, then its siblings; and through the repository's root project
			out = append(out, &VCase{Prop: prop, Cache: cache, Perm: 5, U: multi,
				Root: map[string]VMod{"a": {P("lib"), vPseudoVersion("v1.1.0", 4)}, "z": {P("app"), "v0.9.0"}}, Ops: []string{"bl"}})
			out = append(out, &VCase{Prop: prop, Cache: cache, Perm: 5, U: multi, Root: map[string]VMod{"u": {repo, "v1.0.0"}, "tool": {P("tool"), "v1.0.0"}}, Ops: []string{"bl"}})
		}
	}
	if prop == "C10" {
		// look-alike tags listed before the canonical one, on a revision where the directory says something else:
		// lib v1.1.0 requires tool; `lib/v1.1.0+build7` and `lib/v1.1` point at revision 2 (lib v1.0.0: no requirements)
		alike := VUniverse{Repo: repo, DefaultRef: "main", Refs: map[string]int{"main": 5},
			Nodes: []VNode{{Base: "tool", Version: "v1.0.0"}, {Base: "lib", Version: "v1.0.0"}, {Base: "tool", Version: "v1.2.0"},
				{Base: "lib", Version: "v1.1.0", Reqs: []VMod{{P("tool"), "v1.2.0"}}},
				{Base: "app", Version: "v1.0.0", Reqs: []VMod{{P("lib"), "v1.1.0"}, {P("tool"), "v1.0.0"}}}},
			ExtraTags: []VTag{{Base: "lib", Tag: "v1.1.0+build7", Rev: 2}, {Base: "lib", Tag: "v1.1", Rev: 2}, {Base: "tool", Tag: "v1.2.0+other", Rev: 1}}}
		for _, cache := range []string{"cold", "mem"} {
			out = append(out, &VCase{Prop: prop, Cache: cache, Perm: 9, Legacy: 77, U: alike, Root: map[string]VMod{"app": {P("app"), "v1.0.0"}}, Ops: []string{"bl"}})
		}
	}
	if prop == "C10" {
		// two projects whose paths differ only in letter case, same version, different requirements — and the same for a
		// trailing dot: distinct projects, distinct cache directories, whatever the fetch order and the cache state
		twin := VUniverse{Repo: repo, DefaultRef: "main", Refs: map[string]int{"main": 6},
			Nodes: []VNode{{Base: "x", Version: "v1.0.0"}, {Base: "y", Version: "v1.0.0"},
				{Base: "tools/lib", Version: "v1.0.0", Reqs: []VMod{{P("x"), "v1.0.0"}}}, {Base: "Tools/lib", Version: "v1.0.0", Reqs: []VMod{{P("y"), "v1.0.0"}}},
				{Base: "lib.", Version: "v1.0.0", Reqs: []VMod{{P("x"), "v1.0.0"}}}, {Base: "lib", Version: "v1.0.0"}}}
		for _, cache := range []string{"cold", "disk", "mem"} {
			out = append(out, &VCase{Prop: prop, Cache: cache, Perm: 3, U: twin,
				Root: map[string]VMod{"a": {P("tools/lib"), "v1.0.0"}, "b": {P("Tools/lib"), "v1.0.0"}, "c": {P("lib."), "v1.0.0"}, "d": {P("lib"), "v1.0.0"}}, Ops: []string{"bl"}})
			out = append(out, &VCase{Prop: prop, Cache: cache, Perm: 3, U: twin, Root: map[string]VMod{"b": {P("Tools/lib"), "v1.0.0"}}, Ops: []string{"bl"}})
		}
	} else {
		// a commit that carries TWO tags of one project (v1.0.0-rc.1 and v1.0.0) and one of a sibling: a ref on it, or past
		// it, resolves on the GREATEST tag of that commit
		two := VUniverse{Repo: repo, DefaultRef: "main", Refs: map[string]int{"main": 3, "rel": 2},
			Nodes: []VNode{{Base: "e", Version: "v1.0.0"}, {Base: "d", Version: "v1.0.0"}, {Base: "e", Version: "v1.1.0"}},
			MoreTags: []VPseudo{{Base: "d", Version: "v1.0.0-rc.1", Rev: 2}, {Base: "d", Version: "v0.9.0", Rev: 2}, {Base: "e", Version: "v1.0.5", Rev: 2}}}
		out = append(out, &VCase{Prop: prop, Cache: "cold", U: two, Root: map[string]VMod{"d": {P("d"), "v1.0.0"}},
			Ops: []string{"get:" + P("d") + "@rel", "get:" + P("d") + "@main", "get:" + P("e") + "@rel"}})
	}
	// every second directed case writes its dawn.toml files with non-canonical spellings of the requirement paths;
	// the C10 ones also resolve a second root with the same resolver
	for i, c := range out {
		if i%2 == 1 {
			c.Spell = 0x5eed + uint64(i)
		}
		if i%3 != 0 && c.Legacy == 0 {
			c.Legacy = 0x1e9ac7 + uint64(i)
		}
		if prop == "C10" && len(c.U.Nodes) > 0 {
			n := &c.U.Nodes[0]
			c.OtherRoots = []map[string]VMod{{"other": {c.U.nodePath(n), n.Version}}}
		}
	}
	return out
}

// ------------------------------------------------------------------------------------------------ main

func VerifMain(args []string) int {
	fs := flag.NewFlagSet("verif_mvs", flag.ExitOnError)
	seed := fs.Uint64("seed", 1, "")
	tier := fs.String("tier", "quick", "")
	prop := fs.String("prop", "C10", "C10 | C11")
	replay := fs.String("replay", "", "JSON of one case (the `input` of a violation)")
	budget := fs.Duration("budget", 0, "wall-clock budget for generated cases")
	workers := fs.Int("workers", 8, "")
	fs.Parse(args)

	var err error
	vScratch, err = os.MkdirTemp("", "verif-mvs-*")
	if err != nil {
		fmt.Fprintln(os.Stderr, err)
		return 2
	}
	defer os.RemoveAll(vScratch)

	w := bufio.NewWriterSize(os.Stdout, 1<<20)
	defer w.Flush()

	if *replay != "" {
		var pair struct {
			Pair []string `json:"semver_pair"`
		}
		if json.Unmarshal([]byte(*replay), &pair) == nil && len(pair.Pair) == 2 {
			a, b := pair.Pair[0], pair.Pair[1]
			if got, want := cmpVersion(a, b), refCmp(a, b); got != want {
				in, _ := json.Marshal(map[string]any{"semver_pair": []string{a, b}})
				fmt.Fprintln(w, "V\t"+fmt.Sprintf(`{"prop":"C10","kind":"cmpVersion-wrong-order","detail":%q,"step":0,"input":%s}`,
					fmt.Sprintf("cmpVersion(%q, %q) = %d, version precedence says %d", a, b, got, want), in))
			}
			return 0
		}
		var c VCase
		if err := json.Unmarshal([]byte(*replay), &c); err != nil {
			fmt.Fprintln(os.Stderr, "bad replay:", err)
			return 2
		}
		o := runCase(&c)
		for _, l := range o.lines {
			fmt.Fprintln(w, l)
		}
		return 0
	}

	if *tier == "quick" {
		vFaultEvery = 4
	}
	if *budget == 0 {
		*budget = 25 * time.Second
		if *tier == "thorough" {
			*budget = 7 * time.Minute
		}
	}
	r := &vRng{*seed*0x9E3779B97F4A7C15 + uint64(len(*prop))*7919 + map[string]uint64{"C10": 10, "C11": 11}[*prop]}
	stats := map[string]int{}
	start := time.Now()
	emit := func(o *caseOut) {
		for _, l := range o.lines {
			fmt.Fprintln(w, l)
		}
		for k, v := range o.stats {
			stats[k] += v
		}
		stats["cases"]++
	}
	for _, c := range directedCases(*prop) {
		emit(runCase(c))
		stats["directed"]++
	}
	if *prop == "C10" {
		n := 400
		if *tier == "thorough" {
			n = 6000
		}
		for _, l := range semverLines(r, n) {
			fmt.Fprintln(w, l)
			stats["semver-lines"]++
		}
	}
	// generated cases: produced sequentially from the one PRNG, executed by a pool, reported in order
	maxCases := 4000
	if *tier == "thorough" {
		maxCases = 120000
	}
	batch := 32
	for done := 0; done < maxCases && time.Since(start) < *budget && vHangs.Load() < vMaxHangs; done += batch {
		cs := make([]*VCase, batch)
		for i := range cs {
			cs[i] = genCase(r, *prop)
		}
		outs := make([]*caseOut, batch)
		var wg sync.WaitGroup
		sem := make(chan struct{}, *workers)
		for i := range cs {
			wg.Add(1)
			sem <- struct{}{}
			go func(i int) {
				defer wg.Done()
				defer func() { <-sem }()
				outs[i] = runCase(cs[i])
			}(i)
		}
		wg.Wait()
		for _, o := range outs {
			emit(o)
		}
	}
	stats["hangs"] = int(vHangs.Load())
	stats["wall_ms"] = int(time.Since(start).Milliseconds())
	b, _ := json.Marshal(stats)
	fmt.Fprintln(w, "S\t"+string(b))
	return 0
}

// Overlaid into the root package of the repo (package dawn) by checks/C08.py: gives the C08 harness
// (cmd/verif_env) access to the unexported pieces of function.go. Not part of /repo.
package dawn

import (
	"go.starlark.net/starlark"
)

// VerifTargetFunction returns the Starlark callable of a function target (nil for source targets).
func VerifTargetFunction(t Target) starlark.Callable {
	if f, ok := t.(*function); ok {
		return f.function
	}
	return nil
}

// VerifTargetLabel reports whether v is a value that envPickler pickles as ("dawn","Target",(label,)).
func VerifTargetLabel(v starlark.Value) (string, bool) {
	if f, ok := v.(*function); ok {
		return f.label.String(), true
	}
	return "", false
}

// VerifStamp returns the stamp stored in the target's build record.
func VerifStamp(t Target) (string, error) {
	info, err := t.Project().loadTargetInfo(t.Label())
	return info.Data, err
}

// VerifEnvKeys returns functionEnvKeys.
func VerifEnvKeys() []string {
	var out []string
	for _, k := range functionEnvKeys {
		out = append(out, string(k))
	}
	return out
}

// Variant for a tree that has newEnvPickler (repair of D3) but not the repair of D16.
// See export_common.go.
package dawn

import (
	"bytes"

	"github.com/pgavlin/dawn/pickle"
	"go.starlark.net/starlark"
)

const VerifVariant = "d3-only"

func VerifFunctionEnv(fn starlark.Callable) (starlark.Value, []byte, error) {
	env, err := functionEnv(fn)
	if err != nil {
		return nil, nil, err
	}
	var buf bytes.Buffer
	if err := pickle.NewEncoder(&buf, newEnvPickler()).Encode(fn); err != nil {
		return nil, nil, err
	}
	return env, buf.Bytes(), nil
}

func VerifDecodeEnv(raw []byte) (starlark.Value, error) {
	return pickle.NewDecoder(bytes.NewReader(raw), pickle.UnpicklerFunc(envUnpickler)).Decode()
}

func VerifDiffEnv(oldEnv starlark.Value, oldData string, newEnv starlark.Value, newData string) (bool, string, error) {
	f := &function{oldEnv: oldEnv, newEnv: newEnv}
	eq, reason, _, err := f.diffEnv()
	return eq, reason, err
}

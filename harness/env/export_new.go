// Variant for a tree that has newEnvPickler (repair of D3) and functionEnv returning the encoding
// (repair of D16). See export_common.go.
package dawn

import (
	"bytes"
	"encoding/base64"

	"github.com/pgavlin/dawn/pickle"
	"go.starlark.net/starlark"
)

const VerifVariant = "fixed"

// VerifFunctionEnv runs the real functionEnv and returns the decoded environment and the encoding.
func VerifFunctionEnv(fn starlark.Callable) (starlark.Value, []byte, error) {
	env, data, err := functionEnv(fn)
	if err != nil {
		return nil, nil, err
	}
	raw, err := base64.StdEncoding.DecodeString(data)
	return env, raw, err
}

// VerifDecodeEnv decodes a stamp the way (*function).load does.
func VerifDecodeEnv(raw []byte) (starlark.Value, error) {
	return pickle.NewDecoder(bytes.NewReader(raw), pickle.UnpicklerFunc(envUnpickler)).Decode()
}

// VerifDiffEnv runs the real diffEnv on the given old and new environments.
func VerifDiffEnv(oldEnv starlark.Value, oldData string, newEnv starlark.Value, newData string) (bool, string, error) {
	f := &function{oldEnv: oldEnv, oldData: oldData, newEnv: newEnv, newData: newData}
	eq, reason, _, err := f.diffEnv()
	return eq, reason, err
}

// Correspondence + judge harness for C08 (function-environment fingerprint). Built INTO the repo's module with
// `go build -overlay` as package github.com/pgavlin/dawn/cmd/verif_env; not part of /repo.
//
// The parent generates projects (gen.go) and judges the real code on them, running every load, fingerprint
// and build in a CHILD process (child.go) under a watchdog: a Go stack overflow is a fatal error, not a
// recoverable panic. Output, one record per line, tab separated:
//
//	C <stream> <driver input> <Go's canonical answer>     correspondence pair (tie 2)
//	V <json>                                             the property's own predicate failed on the implementation
//	S <json>                                             statistics of this run
package main

import (
	"bufio"
	"bytes"
	"encoding/json"
	"flag"
	"fmt"
	"os"
	"os/exec"
	"path/filepath"
	"runtime"
	"sort"
	"strings"
	"sync"
	"time"
)

type fpEntry struct {
	Sha string
	Len string
	Hex string
	Err string
}

type childResult struct {
	status  string // ok | crash | hang
	detail  string
	loadErr string
	variant string
	fps     map[string]fpEntry
	graphs  map[string][3]string
	events  map[string][][2]string
	stamps  map[string]string
	wires   map[string]string
	rounds  []map[string][][2]string // watch mode: events per round (0 = the build after Load)
	order   []string
}

var selfExe string

func runChild(dir, mode, order string, graph, full bool, flags []string, timeout time.Duration) *childResult {
	return runChildW(dir, mode, order, graph, full, false, flags, timeout)
}

func runChildW(dir, mode, order string, graph, full, wire bool, flags []string, timeout time.Duration) *childResult {
	args := []string{"-child", mode, "-root", dir, "-order", order}
	if strings.HasPrefix(mode, "watch:") {
		args = []string{"-child", "watch", "-script", strings.TrimPrefix(mode, "watch:"), "-root", dir, "-order", order}
	}
	if mode == "build-always" {
		args = []string{"-child", "build", "-always", "-root", dir, "-order", order}
	}
	if wire {
		args = append(args, "-wire")
	}
	if graph {
		args = append(args, "-graph")
	}
	if full {
		args = append(args, "-full")
	}
	if len(flags) > 0 {
		args = append(args, "-flags", strings.Join(flags, "\x1f"))
	}
	cmd := exec.Command(selfExe, args...)
	var stdout, stderr bytes.Buffer
	cmd.Stdout, cmd.Stderr = &stdout, &stderr
	cmd.Env = append(os.Environ(), "GOTRACEBACK=single", "HOME="+filepath.Dir(dir))
	res := &childResult{status: "ok", fps: map[string]fpEntry{}, graphs: map[string][3]string{}, events: map[string][][2]string{}, stamps: map[string]string{}, wires: map[string]string{}}
	if err := cmd.Start(); err != nil {
		res.status, res.detail = "crash", "cannot start child: "+err.Error()
		return res
	}
	done := make(chan error, 1)
	go func() { done <- cmd.Wait() }()
	var werr error
	select {
	case werr = <-done:
	case <-time.After(timeout):
		cmd.Process.Kill()
		<-done
		res.status, res.detail = "hang", fmt.Sprintf("no result after %v (killed by the watchdog)", timeout)
	}
	sawDone := false
	sc := bufio.NewScanner(&stdout)
	sc.Buffer(make([]byte, 1<<20), 1<<30)
	for sc.Scan() {
		f := strings.Split(sc.Text(), "\t")
		switch f[0] {
		case "L":
			if f[1] == "load-error" {
				res.loadErr = f[2]
			} else {
				res.variant = f[2]
			}
		case "F":
			e := fpEntry{}
			if f[2] == "error" {
				e.Err = f[3]
			} else {
				e.Sha, e.Len = f[2], f[3]
				if len(f) > 4 {
					e.Hex = f[4]
				}
			}
			res.fps[f[1]] = e
			res.order = append(res.order, f[1])
		case "G":
			res.graphs[f[1]] = [3]string{f[2], f[3], f[4]}
		case "K":
			res.rounds = append(res.rounds, map[string][][2]string{})
			if len(f) > 2 {
				res.rounds[len(res.rounds)-1]["-"] = append(res.rounds[len(res.rounds)-1]["-"], [2]string{f[2], ""})
			}
		case "E":
			res.events[f[1]] = append(res.events[f[1]], [2]string{f[2], f[3]})
			if n := len(res.rounds); n > 0 {
				res.rounds[n-1][f[1]] = append(res.rounds[n-1][f[1]], [2]string{f[2], f[3]})
			}
		case "R":
			res.stamps[f[1]] = f[2]
		case "W":
			res.wires[f[1]] = f[2]
		case "D":
			sawDone = true
		}
	}
	if res.status == "ok" && (werr != nil || !sawDone) && res.loadErr == "" {
		res.status = "crash"
		msg := stderr.String()
		// the first lines of a Go fatal error say what happened
		lines := strings.Split(msg, "\n")
		var keep []string
		for _, l := range lines {
			if strings.HasPrefix(l, "fatal error:") || strings.HasPrefix(l, "panic:") || strings.HasPrefix(l, "runtime: goroutine stack exceeds") || strings.Contains(l, "signal") {
				keep = append(keep, l)
			}
			if len(keep) >= 3 {
				break
			}
		}
		if len(keep) == 0 && len(lines) > 0 {
			keep = lines[:min(3, len(lines))]
		}
		res.detail = fmt.Sprintf("child exited abnormally (%v): %s", werr, strings.Join(keep, " | "))
	}
	return res
}

// ---------------------------------------------------------------------------------------------- output

var (
	outMu  sync.Mutex
	out    = bufio.NewWriterSize(os.Stdout, 1<<20)
	stats  = map[string]int{}
	hists  = map[string]map[string]int{}
	nviolK = map[string]int{}
	cfgBits = "101111"
	decideRule = "fixed"
	reasonRule = "safe"
	watchEvery = 9
)

func count(k string, n int) { outMu.Lock(); stats[k] += n; outMu.Unlock() }
func hist(h, k string) {
	outMu.Lock()
	if hists[h] == nil {
		hists[h] = map[string]int{}
	}
	hists[h][k]++
	outMu.Unlock()
}

type caseInput struct {
	Files    map[string]string `json:"files"`
	Flags    []string          `json:"flags,omitempty"`
	Mutation *Mutation         `json:"mutation,omitempty"`
}

func violation(kind, feature, target, detail string, p *Program, m *Mutation) {
	key := kind + ":" + feature
	outMu.Lock()
	defer outMu.Unlock()
	stats["violations"]++
	nviolK[key]++
	if nviolK[key] > 2 {
		return
	}
	b, _ := json.Marshal(map[string]any{"kind": kind, "feature": feature, "key": key, "target": target, "detail": detail,
		"features": p.Features, "input": caseInput{Files: p.Files, Flags: p.Flags, Mutation: m}})
	fmt.Fprintf(out, "V\t%s\n", b)
}

func emitC(stream, in, res string) {
	outMu.Lock()
	fmt.Fprintf(out, "C\t%s\t%s\t%s\n", stream, in, res)
	outMu.Unlock()
}

// ---------------------------------------------------------------------------------------------- judge

func writeFiles(dir string, files map[string]string) error {
	for f, c := range files {
		p := filepath.Join(dir, f)
		if err := os.MkdirAll(filepath.Dir(p), 0755); err != nil {
			return err
		}
		if err := os.WriteFile(p, []byte(c), 0644); err != nil {
			return err
		}
	}
	return nil
}

// featureOf attributes a target label to the unit it belongs to
func featureOf(p *Program, lbl string) string {
	name := lbl[strings.LastIndex(lbl, ":")+1:]
	if strings.HasPrefix(name, "combo_") {
		return "combo"
	}
	if i := strings.LastIndex(name, "_"); i >= 0 {
		sfx := name[i+1:]
		for _, m := range p.Muts {
			for _, t := range m.Targets {
				if strings.HasSuffix(t, "_"+sfx) {
					return m.Feature
				}
			}
		}
	}
	if len(p.Features) == 1 {
		return p.Features[0]
	}
	return "unknown"
}

const envErr = "function environment" // "computing function environment: …", "comparing function environments: …"

type judgeOpts struct {
	maxMuts    int
	maxRebuild int
	watch      bool
	corr    bool
	build   bool
	timeout time.Duration
}

// judge runs the C08 predicate on one program; only is a single mutation to try (replay), or nil for all.
func judge(p *Program, dir string, r *rng, o judgeOpts, only *Mutation) {
	os.RemoveAll(dir)
	if err := writeFiles(dir, p.Files); err != nil {
		panic(err)
	}
	defer os.RemoveAll(dir)
	count("programs", 1)
	for _, f := range p.Features {
		hist("features", f)
	}

	// 1. load + fingerprint every target, in a child; extract the graphs for the model
	a := runChildW(dir, "fp", "fwd", o.corr, o.corr, true, p.Flags, o.timeout)
	count("child_runs", 1)
	if o.corr {
		var lbls []string
		for lbl := range a.graphs {
			lbls = append(lbls, lbl)
		}
		sort.Strings(lbls)
		for _, lbl := range lbls {
			g := a.graphs[lbl]
			in := fmt.Sprintf("fp %s %s %s", cfgBits, g[0], g[1])
			if g[2] != "-" {
				hist("graph_notes", g[2])
				if strings.Contains(g[2], "noncomparable") || strings.Contains(g[2], "unhashable") {
					continue // outside the model (a value the encoder cannot memoise)
				}
			}
			e, ok := a.fps[lbl]
			if ok && e.Err == "" {
				emitC("env.fp", in, "ok "+e.Hex)
			} else if ok && strings.Contains(e.Err, "cannot pickle value of type") {
				emitC("env.fp", in, "err cannotPickle")
			} else if !ok && a.status == "crash" && strings.Contains(a.detail, "stack overflow") {
				// the first graph without an answer is the one the real code died on
				emitC("env.fp", in, "err outOfFuel")
				break
			}
		}
	}
	if a.status != "ok" && a.variant == "" {
		// the process died or hung before dawn.Load returned: the project does not load, which is outside C08
		// ("every target function that loads"); recorded as an observation
		hist("outcome", a.status+"-during-load")
		hist("load_"+a.status, strings.Join(p.Features, "+"))
		fmt.Fprintf(os.Stderr, "observation: %s during load, features=%v: %s\n", a.status, p.Features, a.detail)
		return
	}
	if a.status != "ok" {
		violation(a.status, firstFeature(p), "", a.detail, p, only)
		hist("outcome", a.status)
		return
	}
	if a.loadErr != "" {
		hist("outcome", "load-error")
		count("invalid_programs", 1)
		fmt.Fprintf(os.Stderr, "invalid program (load error): %s\nfeatures=%v\n", a.loadErr, p.Features)
		return
	}
	bad := false
	for _, lbl := range a.order {
		e := a.fps[lbl]
		count("fingerprints", 1)
		if e.Err != "" {
			violation("error", featureOf(p, lbl), lbl, e.Err, p, only)
			bad = true
		}
	}
	if bad {
		hist("outcome", "fingerprint-error")
		return
	}

	// 1b. the decoded environment is wired like the graph the fingerprint was computed from
	for _, lbl := range a.order {
		if wres, ok := a.wires[lbl]; ok {
			count("decoded_wiring_checks", 1)
			if strings.HasPrefix(wres, "ok lost=") {
				// struct / module keys cannot be represented in a decoded environment (observation, see wire.go)
				hist("decoded_env_lacks_unhashable_keys", featureOf(p, lbl))
			} else if wres != "ok" {
				violation("decoded-miswired", featureOf(p, lbl), lbl, "decode(fingerprint) differs from the environment: "+wres, p, only)
			}
		}
	}

	// 2. a second load in another process, packages loaded in the opposite order: byte-equal fingerprints
	b := runChild(dir, "fp", "rev", false, false, p.Flags, o.timeout)
	count("child_runs", 1)
	if b.status != "ok" || b.loadErr != "" {
		violation("crash", firstFeature(p), "", "second load (reverse package order): "+b.status+" "+b.detail+b.loadErr, p, only)
		return
	}
	// … and a third process (anything seeded per process, such as the hash of long strings, shows with probability
	// 1 - 1/k! per pair of processes for k affected elements)
	c3 := runChild(dir, "fp", "fwd", false, false, p.Flags, o.timeout)
	count("child_runs", 1)
	if c3.status != "ok" || c3.loadErr != "" {
		violation("crash", firstFeature(p), "", "third load: "+c3.status+" "+c3.detail+c3.loadErr, p, only)
		return
	}
	for _, lbl := range a.order {
		count("determinism_comparisons", 2)
		for _, other := range []*childResult{b, c3} {
			if a.fps[lbl].Sha != other.fps[lbl].Sha {
				violation("nondeterministic", featureOf(p, lbl), lbl, fmt.Sprintf("two loads of the same text in two processes: %s (%s bytes) vs %s (%s bytes)", a.fps[lbl].Sha[:12], a.fps[lbl].Len, other.fps[lbl].Sha, other.fps[lbl].Len), p, only)
				break
			}
		}
	}

	// 3. mutations
	muts := p.Muts
	if only != nil {
		muts = []Mutation{*only}
	} else if len(muts) > o.maxMuts {
		// keep a seeded sample, always including at least one insens
		idx := make([]int, len(muts))
		for i := range idx {
			idx[i] = i
		}
		for i := len(idx) - 1; i > 0; i-- {
			j := r.below(i + 1)
			idx[i], idx[j] = idx[j], idx[i]
		}
		var keep []Mutation
		for _, i := range idx[:o.maxMuts] {
			keep = append(keep, muts[i])
		}
		muts = keep
	}
	for i := range muts {
		m := muts[i]
		orig := p.Files[m.File]
		if strings.Count(orig, m.Old) != 1 {
			continue
		}
		os.WriteFile(filepath.Join(dir, m.File), []byte(strings.Replace(orig, m.Old, m.New, 1)), 0644)
		c := runChild(dir, "fp", "fwd", false, false, p.Flags, o.timeout)
		os.WriteFile(filepath.Join(dir, m.File), []byte(orig), 0644)
		count("child_runs", 1)
		count("mutations_"+m.Kind, 1)
		mp := *p
		mp.Files = map[string]string{}
		for f, cc := range p.Files {
			mp.Files[f] = cc
		}
		mp.Files[m.File] = strings.Replace(orig, m.Old, m.New, 1)
		if c.status != "ok" {
			violation(c.status, m.Feature, "", "after the edit ("+m.What+"): "+c.detail, &mp, nil)
			continue
		}
		if c.loadErr != "" {
			hist("mutant_load_error", m.Feature)
			continue
		}
		if m.Kind == "sens" {
			for _, t := range m.Targets {
				e0, ok0 := a.fps[t]
				e1, ok1 := c.fps[t]
				if !ok0 || !ok1 {
					hist("mutant_target_missing", m.Feature)
					continue
				}
				if e1.Err != "" {
					violation("error", m.Feature, t, "after the edit ("+m.What+"): "+e1.Err, &mp, nil)
					continue
				}
				count("sensitivity_comparisons", 1)
				if e0.Sha == e1.Sha {
					violation("insensitive", m.Feature, t, "fingerprint unchanged by: "+m.What, p, &m)
				}
			}
		} else {
			for _, lbl := range a.order {
				count("insensitivity_comparisons", 1)
				if e1, ok := c.fps[lbl]; ok && e1.Sha != a.fps[lbl].Sha {
					hist("insens_changed", m.Feature) // an observation: C08 does not require stability here
				}
			}
		}
	}

	// 4. build twice, each after a fresh load in its own process: the second build is up to date
	if o.build {
		os.RemoveAll(filepath.Join(dir, ".dawn"))
		b1 := runChild(dir, "build", "fwd", false, false, p.Flags, o.timeout)
		count("child_runs", 1)
		if b1.status != "ok" {
			violation(b1.status, firstFeature(p), "", "first build: "+b1.detail, p, only)
			return
		}
		ok1 := true
		for lbl, evs := range b1.events {
			for _, ev := range evs {
				if ev[0] == "failed" || ev[0] == "run-error" || ev[0] == "module-load-failed" {
					ok1 = false
					if strings.Contains(ev[1], envErr) {
						violation("build-error", featureOf(p, lbl), lbl, "first build: "+ev[1], p, only)
					} else if !strings.Contains(ev[1], "dependency") {
						count("invalid_programs", 1)
						fmt.Fprintf(os.Stderr, "invalid program (first build failed): %s %s\nfeatures=%v\n", lbl, ev[1], p.Features)
					}
				}
			}
		}
		for lbl, sha := range b1.stamps {
			if !ok1 {
				break
			}
			count("stamp_comparisons", 1)
			if e, ok := a.fps[lbl]; ok && e.Sha != sha {
				count("stamp_mismatch", 1)
				fmt.Fprintf(os.Stderr, "stored stamp of %s differs from the fingerprint computed before the build; features=%v\n", lbl, p.Features)
			}
		}
		if ok1 {
			b2 := runChild(dir, "build", "rev", false, false, p.Flags, o.timeout)
			count("child_runs", 1)
			if b2.status != "ok" {
				violation(b2.status, firstFeature(p), "", "second build of the unchanged tree: "+b2.detail, p, only)
				return
			}
			for _, lbl := range a.order {
				evs := b2.events[lbl]
				count("second_build_targets", 1)
				verdict := "none"
				for _, ev := range evs {
					switch ev[0] {
					case "failed", "run-error":
						verdict = "failed: " + ev[1]
					case "evaluating":
						if !strings.HasPrefix(verdict, "failed") {
							verdict = "evaluating: " + ev[1]
						}
					case "uptodate":
						if verdict == "none" {
							verdict = "uptodate"
						}
					}
				}
				switch {
				case verdict == "uptodate":
				case strings.HasPrefix(verdict, "failed") && strings.Contains(verdict, "dependency"):
				case strings.HasPrefix(verdict, "failed"):
					violation("second-build-error", featureOf(p, lbl), lbl, "second build of the unchanged tree: "+verdict, p, only)
				case strings.HasPrefix(verdict, "evaluating") && !strings.Contains(verdict, "dependencies"):
					violation("second-build-rerun", featureOf(p, lbl), lbl, "second build of the unchanged tree re-runs the target: "+verdict, p, only)
				}
			}
		}
	}
	// 5. the USE of the fingerprint (property C01: a target has executed since the latest change to what its function
	// references): after an edit that changes the fingerprint, the next build re-executes the affected targets.
	if o.build && only == nil || (o.build && only != nil && only.Kind == "sens") {
		var pick []Mutation
		for _, m := range p.Muts {
			if m.Kind == "sens" && (m.Feature == "eqdistinct" || m.Feature == "targetsig" || strings.Contains(m.What, "equal but distinct") || strings.Contains(m.What, "negative zero")) {
				pick = append(pick, m)
			}
		}
		var rest []Mutation
		for _, m := range p.Muts {
			if m.Kind == "sens" {
				rest = append(rest, m)
			}
		}
		if len(rest) > 0 {
			pick = append(pick, rest[r.below(len(rest))])
		}
		if len(pick) > o.maxRebuild {
			pick = pick[:o.maxRebuild]
		}
		if only != nil {
			pick = []Mutation{*only}
		}
		for i := range pick {
			m := pick[i]
			orig := p.Files[m.File]
			if strings.Count(orig, m.Old) != 1 {
				continue
			}
			// records of the unedited tree
			os.RemoveAll(filepath.Join(dir, ".dawn"))
			b0 := runChild(dir, "build", "fwd", false, false, p.Flags, o.timeout)
			count("child_runs", 1)
			if b0.status != "ok" {
				break
			}
			os.WriteFile(filepath.Join(dir, m.File), []byte(strings.Replace(orig, m.Old, m.New, 1)), 0644)
			b1 := runChild(dir, "build", "fwd", false, false, p.Flags, o.timeout)
			os.WriteFile(filepath.Join(dir, m.File), []byte(orig), 0644)
			count("child_runs", 1)
			if b1.status != "ok" && b1.variant != "" {
				// the build process died (or hung) after loading: the edit cannot even be built
				mp := *p
				mp.Files = map[string]string{}
				for f, cc := range p.Files {
					mp.Files[f] = cc
				}
				violation(b1.status+"-after-edit", m.Feature, "", "use of the fingerprint (property C01): the build after the edit ("+m.What+
					") does not re-execute the target, the process dies: "+b1.detail, &mp, &m)
				continue
			}
			if b1.status != "ok" || b1.loadErr != "" {
				hist("rebuild_skipped", m.Feature)
				continue
			}
			for _, t := range m.Targets {
				evs, ok := b1.events[t]
				if !ok {
					hist("rebuild_skipped", m.Feature)
					continue
				}
				ran, dep, up := false, false, false
				for _, ev := range evs {
					switch {
					case ev[0] == "evaluating":
						ran = true
					case (ev[0] == "failed" || ev[0] == "run-error") && strings.Contains(ev[1], "dependency"):
						dep = true
					case ev[0] == "uptodate":
						up = true
					}
				}
				if dep && !ran {
					continue
				}
				count("rebuild_after_edit_targets", 1)
				if !ran && up {
					violation("stale-after-edit", m.Feature, t, "use of the fingerprint (property C01): after the edit ("+m.What+
						") the build reports the target up to date and does not re-execute it, although its fingerprint changed", p, &m)
				}
			}
		}
	}
	// 6. the same in ONE long-lived process (watch mode, REPL): Load once; per round edit, Reload, Run. Nothing that is
	// kept across Reload may stand in for the fingerprint of the reloaded function.
	if o.watch && only == nil {
		var rounds []Mutation
		text := map[string]string{}
		for f, c := range p.Files {
			text[f] = c
		}
		for _, m := range p.Muts {
			if m.Kind == "sens" && len(rounds) < 2 && strings.Count(text[m.File], m.Old) == 1 && len(m.Targets) > 0 {
				text[m.File] = strings.Replace(text[m.File], m.Old, m.New, 1)
				rounds = append(rounds, m)
			}
		}
		for _, m := range p.Muts {
			if m.Kind == "insens" && m.Feature == "comments" && strings.Count(text[m.File], m.Old) == 1 {
				rounds = append(rounds, m)
				break
			}
		}
		if len(rounds) >= 2 {
			// ground truth for every round, from fresh processes: the fingerprints of the project as it is after the edits of
			// rounds 1..i (an earlier edit can take a later one out of a target's environment, so the table's "targets" of a
			// mutation hold for the unedited program only). A target must re-execute in round i exactly when its fingerprint
			// after round i differs from the one after round i-1.
			states := []map[string]fpEntry{}
			cur := map[string]string{}
			for f, c := range p.Files {
				cur[f] = c
			}
			okStates := true
			for i := 0; i <= len(rounds); i++ {
				if i > 0 {
					m := rounds[i-1]
					cur[m.File] = strings.Replace(cur[m.File], m.Old, m.New, 1)
				}
				writeFiles(dir, cur)
				fc := runChild(dir, "fp", "fwd", false, false, p.Flags, o.timeout)
				count("child_runs", 1)
				if fc.status != "ok" || fc.loadErr != "" {
					okStates = false
					break
				}
				states = append(states, fc.fps)
			}
			os.RemoveAll(filepath.Join(dir, ".dawn"))
			writeFiles(dir, p.Files)
			if !okStates {
				hist("watch_skipped", "state-does-not-load")
				hist("outcome", "judged")
				return
			}
			script := filepath.Join(dir, "watch-script.json")
			sb, _ := json.Marshal(rounds)
			os.WriteFile(script, sb, 0644)
			w := runChild(dir, "watch:"+script, "fwd", false, false, p.Flags, o.timeout)
			writeFiles(dir, p.Files)
			count("child_runs", 1)
			count("watch_programs", 1)
			if w.status != "ok" && w.variant != "" {
				violation(w.status+"-after-reload", firstFeature(p), "", "one process, Load then edit / Reload / Run: "+w.detail, p, nil)
			}
			// a target is "settled" after a round when that round left a record of a successful run (or found it up to date);
			// after a failed or skipped run the next round legitimately runs it again whatever its fingerprint
			settled := map[string]bool{}
			note := func(evs map[string][][2]string) {
				for lbl, es := range evs {
					ok := false
					for _, ev := range es {
						switch ev[0] {
						case "succeeded", "uptodate":
							ok = true
						case "failed", "run-error", "reload-error":
							ok = false
						}
					}
					settled[lbl] = ok
				}
			}
			if len(w.rounds) > 0 {
				note(w.rounds[0])
			}
			for i, m := range rounds {
				if i+1 >= len(w.rounds) {
					break
				}
				evs := w.rounds[i+1]
				if _, bad := evs["-"]; bad {
					hist("watch_skipped", m.Feature)
					break
				}
				for _, lbl := range a.order {
					before, ok0 := states[i][lbl]
					after, ok1 := states[i+1][lbl]
					if !ok0 || !ok1 || before.Err != "" || after.Err != "" || !settled[lbl] {
						continue
					}
					ran, dep, up, reason := false, false, false, ""
					for _, ev := range evs[lbl] {
						switch {
						case ev[0] == "evaluating":
							ran, reason = true, ev[1]
						case (ev[0] == "failed" || ev[0] == "run-error") && strings.Contains(ev[1], "dependency"):
							dep = true
						case ev[0] == "uptodate":
							up = true
						}
					}
					if dep && !ran {
						continue
					}
					count("watch_round_targets", 1)
					mm := m
					if before.Sha != after.Sha && !ran && up {
						violation("stale-after-reload", m.Feature, lbl, fmt.Sprintf("use of the fingerprint (property C01), one long-lived process: edit %d (%s) changes the target's fingerprint (fresh processes: %s -> %s), but after Reload the build reports the target up to date and does not re-execute it", i+1, m.What, before.Sha[:12], after.Sha[:12]), p, &mm)
					}
					if before.Sha == after.Sha && ran && !strings.Contains(reason, "dependencies") {
						violation("rerun-after-reload", firstFeature(p), lbl, fmt.Sprintf("one long-lived process: edit %d (%s) leaves the target's fingerprint unchanged (fresh processes: %s) and the previous round built it, but after Reload the target re-executes: %s", i+1, m.What, before.Sha[:12], reason), p, &mm)
					}
				}
				note(evs)
			}
		}
	}
	hist("outcome", "judged")
}

func firstFeature(p *Program) string {
	if len(p.Features) == 1 {
		return p.Features[0]
	}
	return "program"
}

func main() {
	child := flag.String("child", "", "")
	root := flag.String("root", "", "")
	order := flag.String("order", "", "")
	graph := flag.Bool("graph", false, "")
	full := flag.Bool("full", false, "")
	wire := flag.Bool("wire", false, "")
	scriptFlag := flag.String("script", "", "child watch mode: json file with the rounds of edits")
	always := flag.Bool("always", false, "child build mode: RunOptions{Always: true}")
	cflags := flag.String("flags", "", "")
	seed := flag.Uint64("seed", 1, "")
	tier := flag.String("tier", "quick", "")
	replay := flag.String("replay", "", "json case {files, flags, mutation}")
	corpus := flag.String("corpus", "", "directory of json cases run first")
	scratch := flag.String("scratch", "", "scratch directory (removed afterwards by the caller)")
	cfg := flag.String("cfg", "101111", "model configuration bits (see lean/Driver/Env.lean)")
	budget := flag.Int("budget", 0, "seconds for the program loop (0 = tier default)")
	decideFlag := flag.String("decide", "fixed", "which diffEnv the tree has: old | d16 | fixed")
	reasonRuleFlag := flag.String("reasonrule", "safe", "whether diffEnv handles 'no known part differs': old | safe")
	reasonKeysFlag := flag.String("reasonkeys", "", "json list of keys: replay one case of the env.reasontext stream")
	modeFlag := flag.String("mode", "", "reason: only the ground-truth judge of rebuild reasons (property C16)")
	reasonReplayFlag := flag.String("reason-replay", "", "json {case} of the reason stream")
	kindsFlag := flag.String("kinds", "", "comma separated unit kinds: judge one program made of exactly these units")
	flag.Parse()

	if *child != "" {
		var fl []string
		if *cflags != "" {
			fl = strings.Split(*cflags, "\x1f")
		}
		os.Exit(childMain(*child, *root, *order, *graph, *full, *wire, *always, fl, *scriptFlag))
	}
	selfExe, _ = os.Executable()
	cfgBits = *cfg
	decideRule = *decideFlag
	reasonRule = *reasonRuleFlag
	defer out.Flush()
	if *scratch == "" {
		*scratch, _ = os.MkdirTemp("", "verif-env-")
		defer os.RemoveAll(*scratch)
	}
	timeout := 90 * time.Second

	if *reasonKeysFlag != "" {
		json.Unmarshal([]byte(*reasonKeysFlag), &reasonKeysOverride)
		reasonStream(&rng{1}, "replay1")
		return
	}
	if *modeFlag == "reason" || *reasonReplayFlag != "" {
		if *reasonReplayFlag != "" {
			reasonReplay(*reasonReplayFlag, *scratch)
		} else {
			reasonMode(*seed, *tier, *scratch)
		}
		outMu.Lock()
		b, _ := json.Marshal(map[string]any{"counts": stats, "histograms": hists})
		fmt.Fprintf(out, "S\t%s\n", b)
		outMu.Unlock()
		return
	}

	if *replay != "" {
		var c caseInput
		if err := json.Unmarshal([]byte(*replay), &c); err != nil {
			fmt.Fprintln(os.Stderr, err)
			os.Exit(2)
		}
		p := &Program{Files: c.Files, Flags: c.Flags, Features: []string{"replay"}}
		judge(p, filepath.Join(*scratch, "replay"), &rng{*seed}, judgeOpts{maxMuts: 100, maxRebuild: 4, corr: true, build: true, timeout: timeout}, c.Mutation)
		b, _ := json.Marshal(stats)
		fmt.Fprintf(out, "S\t%s\n", b)
		return
	}

	if *kindsFlag != "" {
		p := genProgram(&rng{*seed}, 0, strings.Split(*kindsFlag, ","))
		judge(p, filepath.Join(*scratch, "kinds"), &rng{*seed}, judgeOpts{maxMuts: 100, maxRebuild: 4, corr: true, build: true, timeout: timeout}, nil)
		b, _ := json.Marshal(map[string]any{"counts": stats, "histograms": hists})
		fmt.Fprintf(out, "S\t%s\n", b)
		return
	}

	start := time.Now()
	limit := 40 * time.Second
	nprog, maxMuts, maxRebuild := 100000, 5, 2
	watchEvery = 9
	if *tier == "thorough" {
		limit, maxMuts, maxRebuild = 480*time.Second, 14, 4
		watchEvery = 3
	}
	if *budget > 0 {
		limit = time.Duration(*budget) * time.Second
	}

	// 0. corpus
	if *corpus != "" {
		ents, _ := os.ReadDir(*corpus)
		for i, e := range ents {
			if !strings.HasSuffix(e.Name(), ".json") {
				continue
			}
			raw, err := os.ReadFile(filepath.Join(*corpus, e.Name()))
			if err != nil {
				continue
			}
			var c struct {
				caseInput
				Feature string `json:"feature"`
			}
			if json.Unmarshal(raw, &c) != nil {
				continue
			}
			p := &Program{Files: c.Files, Flags: c.Flags, Features: []string{c.Feature}}
			if c.Mutation != nil {
				p.Muts = []Mutation{*c.Mutation}
			}
			judge(p, filepath.Join(*scratch, fmt.Sprintf("corpus%d", i)), &rng{*seed}, judgeOpts{maxMuts: 100, maxRebuild: 4, corr: true, build: true, timeout: timeout}, c.Mutation)
			count("corpus_cases", 1)
		}
	}

	// 1. programs: first every unit kind on its own (several parameter draws), then random combinations
	type job struct {
		idx int
		p   *Program
	}
	jobs := make(chan job, 64)
	var wg sync.WaitGroup
	workers := runtime.NumCPU()
	if workers > 16 {
		workers = 16
	}
	for w := 0; w < workers; w++ {
		wg.Add(1)
		go func(w int) {
			defer wg.Done()
			for j := range jobs {
				r := &rng{*seed*1000003 + uint64(j.idx)*7919 + 17}
				judge(j.p, filepath.Join(*scratch, fmt.Sprintf("p%d", j.idx)), r,
					judgeOpts{maxMuts: maxMuts, maxRebuild: maxRebuild, corr: j.idx%3 == 0 || j.idx < 200, build: true, watch: j.idx%watchEvery == 0, timeout: timeout}, nil)
			}
		}(w)
	}
	kinds := append([]string{}, unitKinds...)
	sort.Strings(kinds)
	var uniq []string
	for i, k := range kinds {
		if i == 0 || kinds[i-1] != k {
			uniq = append(uniq, k)
		}
	}
	idx := 0
	gen := &rng{*seed}
	rounds := 2
	if *tier == "thorough" {
		rounds = 8
	}
	for round := 0; round < rounds && time.Since(start) < limit; round++ {
		for _, k := range uniq {
			jobs <- job{idx, genProgram(gen, idx, []string{k})}
			idx++
		}
	}
	for idx < nprog && time.Since(start) < limit {
		jobs <- job{idx, genProgram(gen, idx, nil)}
		idx++
	}
	close(jobs)
	wg.Wait()
	count("program_loop_ms", int(time.Since(start).Milliseconds()))

	// 2. starlark.EqualDepth and diffEnv against the model, on generated plain values (cyclic ones included)
	compareStreams(&rng{*seed ^ 0xabcdef}, *tier)

	outMu.Lock()
	b, _ := json.Marshal(map[string]any{"counts": stats, "histograms": hists})
	fmt.Fprintf(out, "S\t%s\n", b)
	outMu.Unlock()
}

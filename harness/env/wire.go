// Judge on the DECODED environment: the real encoding is decoded again with a structure-preserving unpickler (every
// NEWOBJ becomes a hostObj{name, args}) and compared with the graph the harness read off the real values —
// kinds, atoms, order, and ALIASING: every memoisable object of the graph must come back as one Go object wherever it
// is referenced, two different objects must come back as two. A memo id that drifts (an encoder that numbers memo
// entries differently from the decoder) makes a later BINGET resolve to the wrong object and shows up here directly.
//
// The walk follows the encoder's order (the order in which the graph was extracted), because what a reference to a
// function decodes to depends on it: while a function, function code or builtin is in progress a reference to it is
// the marker ("dawn","Recursive",(name, ordinal)); after it is finished, the finished object.
package main

import (
	"bytes"
	"fmt"
	"math"
	"sort"
	"strings"
	"unsafe"

	"github.com/pgavlin/dawn/pickle"
	"go.starlark.net/starlark"
)

type hostObj struct {
	name string
	args starlark.Tuple
}

func (h *hostObj) String() string        { return "<" + h.name + ">" }
func (h *hostObj) Type() string          { return "host:" + h.name }
func (h *hostObj) Freeze()               {}
func (h *hostObj) Truth() starlark.Bool  { return starlark.True }
func (h *hostObj) Hash() (uint32, error) { return uint32(uintptr(unsafe.Pointer(h))), nil }

func atomSyntax(v starlark.Value) (string, bool) {
	switch v := v.(type) {
	case starlark.NoneType:
		return "n", true
	case starlark.Bool:
		if v {
			return "T", true
		}
		return "F", true
	case starlark.Int:
		return "i" + v.String(), true
	case starlark.Float:
		return fmt.Sprintf("d%016x", math.Float64bits(float64(v))), true
	case starlark.String:
		return "s" + hexs(string(v)), true
	case starlark.Bytes:
		return "y" + hexs(string(v)), true
	}
	return "", false
}

type wirer struct {
	x        *extractor
	bound    map[int]any // graph node (tmp id) -> the decoded Go object it currently stands for
	owner    map[any]int // decoded Go object -> graph node
	seenOrd  map[int]int // function / code / builtin nodes in first-visit order
	progress map[int]bool
	fixed    bool // the tree has the per-encoding pickler (markers)
	lost     int  // entries whose key cannot be represented in a decoded environment
}

func (w *wirer) fail(f string, a ...any) error { return fmt.Errorf(f, a...) }

func (w *wirer) bind(id int, obj any) error {
	if o, ok := w.owner[obj]; ok && o != id {
		return w.fail("decoded object of node %d is also the decoded object of node %d (two objects became one)", id, o)
	}
	w.bound[id] = obj
	w.owner[obj] = id
	return nil
}

// val compares a child value (atom syntax or "@id") with a decoded value
func (w *wirer) val(s string, dv starlark.Value) error {
	if len(s) > 0 && s[0] == '@' {
		var id int
		fmt.Sscanf(s, "@%d", &id)
		return w.node(id, dv)
	}
	got, ok := atomSyntax(dv)
	if !ok {
		return w.fail("expected the atom %.40s, decoded a %s", s, dv.Type())
	}
	if got != s {
		return w.fail("expected the atom %.40s, decoded %.40s", s, got)
	}
	return nil
}

// plainAll renders graph values that are atoms or tuples of such, canonically; ok is false if anything else occurs
func (w *wirer) plainAll(vals []string) ([]string, bool) {
	var out []string
	for _, s := range vals {
		r, ok := w.plain(s)
		if !ok {
			return nil, false
		}
		out = append(out, r)
	}
	return out, true
}

func (w *wirer) plain(s string) (string, bool) {
	if len(s) == 0 || s[0] != '@' {
		return s, true
	}
	var id int
	fmt.Sscanf(s, "@%d", &id)
	n := w.x.nodes[id]
	if n.kind != 't' {
		return "", false
	}
	parts, ok := w.plainAll(n.vals)
	return "(" + strings.Join(parts, ",") + ")", ok
}

func plainValue(v starlark.Value) (string, bool) {
	if s, ok := atomSyntax(v); ok {
		return s, true
	}
	t, ok := v.(starlark.Tuple)
	if !ok {
		return "", false
	}
	var parts []string
	for _, e := range t {
		r, ok := plainValue(e)
		if !ok {
			return "", false
		}
		parts = append(parts, r)
	}
	return "(" + strings.Join(parts, ",") + ")", true
}

// lostKey: a dict key or set element that is hashable in Starlark but decodes to an unhashable value — a struct or
// module (written as a dict of its attributes), or a tuple holding one. The decoder cannot insert it: with the code as
// it is the entry is silently absent from the decoded environment (which only serves the displayed reason and diff;
// the up-to-date decision is on the bytes). Counted as an observation, not a mismatch.
func (w *wirer) lostKey(s string) bool {
	if len(s) == 0 || s[0] != '@' {
		return false
	}
	var id int
	fmt.Sscanf(s, "@%d", &id)
	n := w.x.nodes[id]
	switch n.kind {
	case 'l', 'm', 'e':
		return true
	case 't':
		for _, v := range n.vals {
			if w.lostKey(v) {
				return true
			}
		}
	}
	return false
}

func (w *wirer) seq(n *node, dvs []starlark.Value, what string) error {
	if len(dvs) != len(n.vals) {
		return w.fail("%s: %d elements expected, %d decoded", what, len(n.vals), len(dvs))
	}
	for i, s := range n.vals {
		if err := w.val(s, dvs[i]); err != nil {
			return err
		}
	}
	return nil
}

func (w *wirer) host(id int, dv starlark.Value, name string, nargs int) (*hostObj, error) {
	h, ok := dv.(*hostObj)
	if !ok {
		return nil, w.fail("node %d: expected the host object %s, decoded a %s", id, name, dv.Type())
	}
	if h.name != name || len(h.args) != nargs {
		return nil, w.fail("node %d: expected %s/%d, decoded %s/%d", id, name, nargs, h.name, len(h.args))
	}
	return h, nil
}

func (w *wirer) node(id int, dv starlark.Value) error {
	n := w.x.nodes[id]
	if n.kind == 't' {
		t, ok := dv.(starlark.Tuple)
		if !ok {
			return w.fail("node %d: expected a tuple, decoded a %s", id, dv.Type())
		}
		return w.seq(n, t, "tuple")
	}
	if obj, ok := w.bound[id]; ok {
		// the encoder wrote a BINGET: the very same decoded object must come back
		if any(dv) != obj {
			return w.fail("node %d (%c): a later reference decodes to a different object (%s) than the first one", id, n.kind, dv.Type())
		}
		return nil
	}
	switch n.kind {
	case 'l':
		l, ok := dv.(*starlark.List)
		if !ok {
			return w.fail("node %d: expected a list, decoded a %s", id, dv.Type())
		}
		if err := w.bind(id, l); err != nil {
			return err
		}
		elems := make([]starlark.Value, l.Len())
		for i := range elems {
			elems[i] = l.Index(i)
		}
		return w.seq(n, elems, "list")
	case 'e':
		s, ok := dv.(*starlark.Set)
		if !ok {
			return w.fail("node %d: expected a set, decoded a %s", id, dv.Type())
		}
		if err := w.bind(id, s); err != nil {
			return err
		}
		// a set has no order: when all elements are plain hashable data, compare as multisets (an encoder is free to
		// write the elements in any reproducible order)
		if want, ok := w.plainAll(n.vals); ok {
			var got []string
			for _, e := range s.Elems() {
				r, ok := plainValue(e)
				if !ok {
					return w.fail("node %d: set element of type %s decoded where plain data was expected", id, e.Type())
				}
				got = append(got, r)
			}
			sort.Strings(want)
			sort.Strings(got)
			if strings.Join(want, ";") != strings.Join(got, ";") {
				return w.fail("node %d: the decoded set has other elements than the set in the environment", id)
			}
			return nil
		}
		keptS := &node{kind: 'e'}
		for _, v := range n.vals {
			if w.lostKey(v) {
				w.lost++
				continue
			}
			keptS.vals = append(keptS.vals, v)
		}
		return w.seq(keptS, s.Elems(), "set")
	case 'm':
		d, ok := dv.(*starlark.Dict)
		if !ok {
			return w.fail("node %d: expected a dict, decoded a %s", id, dv.Type())
		}
		if err := w.bind(id, d); err != nil {
			return err
		}
		var flat []starlark.Value
		for _, kv := range d.Items() {
			flat = append(flat, kv[0], kv[1])
		}
		kept := &node{kind: 'm'}
		for i := 0; i+1 < len(n.vals); i += 2 {
			if w.lostKey(n.vals[i]) {
				w.lost++
				continue
			}
			kept.vals = append(kept.vals, n.vals[i], n.vals[i+1])
		}
		return w.seq(kept, flat, "dict")
	case 'g':
		h, err := w.host(id, dv, "Target", 1)
		if err != nil {
			return err
		}
		if err := w.bind(id, h); err != nil {
			return err
		}
		if s, _ := atomSyntax(h.args[0]); s != "s"+n.a {
			return w.fail("node %d: target label differs", id)
		}
		return nil
	case 'M':
		h, err := w.host(id, dv, "Mandatory", 0)
		if err != nil {
			return err
		}
		return w.bind(id, h)
	case 'b', 'c', 'f':
		if w.fixed && w.progress[id] {
			h, err := w.host(id, dv, "Recursive", 2)
			if err != nil {
				return err
			}
			name, _ := atomSyntax(h.args[0])
			ord, _ := atomSyntax(h.args[1])
			if name != "s"+n.a || ord != fmt.Sprintf("i%d", w.seenOrd[id]) {
				return w.fail("node %d: marker (%s, %s) does not name the object in progress (s%s, i%d)", id, name, ord, n.a, w.seenOrd[id])
			}
			return w.bind(id, h)
		}
		if _, ok := w.seenOrd[id]; !ok {
			w.seenOrd[id] = len(w.seenOrd)
		}
		w.progress[id] = true
		defer func() { w.progress[id] = false }()
		var h *hostObj
		var err error
		switch n.kind {
		case 'b':
			if h, err = w.host(id, dv, "Builtin", 2); err != nil {
				return err
			}
			if s, _ := atomSyntax(h.args[0]); s != "s"+n.a {
				return w.fail("node %d: builtin name differs", id)
			}
			if err = w.val(n.vals[0], h.args[1]); err != nil {
				return err
			}
		case 'c':
			if h, err = w.host(id, dv, "FunctionCode", 4); err != nil {
				return err
			}
			if err = w.val(n.vals[0], h.args[0]); err != nil {
				return err
			}
			if err = w.val(n.vals[1], h.args[1]); err != nil {
				return err
			}
			if s, _ := atomSyntax(h.args[2]); s != "y"+n.b {
				return w.fail("node %d: bytecode differs", id)
			}
			if err = w.val(n.vals[2], h.args[3]); err != nil {
				return err
			}
		case 'f':
			if h, err = w.host(id, dv, "Function", 3); err != nil {
				return err
			}
			for i := 0; i < 3; i++ {
				if err = w.val(n.vals[i], h.args[i]); err != nil {
					return err
				}
			}
		}
		// finished: from now on references decode to the finished object (the marker's binding is replaced)
		if old, ok := w.bound[id]; ok {
			delete(w.owner, old)
		}
		return w.bind(id, h)
	}
	return w.fail("node %d: kind %c cannot be decoded", id, n.kind)
}

// checkWiring decodes raw with a structure-preserving unpickler and compares it with the extracted graph.
// root is the extractor's value syntax of the root ("@id" or an atom).
func checkWiring(x *extractor, root string, raw []byte, fixed bool) (res string) {
	defer func() {
		if e := recover(); e != nil {
			res = fmt.Sprintf("panic while comparing: %v", e)
		}
	}()
	dv, err := pickle.NewDecoder(bytes.NewReader(raw), pickle.UnpicklerFunc(func(module, name string, args starlark.Tuple) (starlark.Value, error) {
		if module != "dawn" {
			return nil, fmt.Errorf("module %q", module)
		}
		return &hostObj{name: name, args: args}, nil
	})).Decode()
	if err != nil {
		return "decode error: " + err.Error()
	}
	w := &wirer{x: x, bound: map[int]any{}, owner: map[any]int{}, seenOrd: map[int]int{}, progress: map[int]bool{}, fixed: fixed}
	if err := w.val(root, dv); err != nil {
		return err.Error()
	}
	if w.lost > 0 {
		return fmt.Sprintf("ok lost=%d", w.lost)
	}
	return "ok"
}

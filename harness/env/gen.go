// BUILD-file program generator for C08: projects whose target functions use every way a Starlark function can
// reach code and data (recursion, mutual recursion, closures, defaults, nested defs, lambdas, comprehensions,
// large / cyclic / deep globals, every predeclared kind, helper modules), each with the edits that must change
// a fingerprint ("sens") and edits that need not ("insens").
package main

import (
	"fmt"
	"sort"
	"strings"
)

type rng struct{ s uint64 }

func (r *rng) next() uint64 {
	r.s += 0x9E3779B97F4A7C15
	z := r.s
	z = (z ^ (z >> 30)) * 0xBF58476D1CE4E5B9
	z = (z ^ (z >> 27)) * 0x94D049BB133111EB
	return z ^ (z >> 31)
}
func (r *rng) below(n int) int   { return int(r.next() % uint64(n)) }
func (r *rng) pick(xs []string) string { return xs[r.below(len(xs))] }

// Mutation is one textual edit of one file: the first (and only) occurrence of Old becomes New.
type Mutation struct {
	Kind    string   `json:"kind"` // sens | insens
	File    string   `json:"file"`
	Old     string   `json:"old"`
	New     string   `json:"new"`
	What    string   `json:"what"`
	Feature string   `json:"feature"`
	Targets []string `json:"targets,omitempty"` // labels whose fingerprint must change (sens)
}

// Program is one generated project.
type Program struct {
	Files    map[string]string `json:"files"`
	Flags    []string          `json:"flags,omitempty"`
	Muts     []Mutation        `json:"mutations,omitempty"`
	Features []string          `json:"features"`
}

type unit struct {
	feature string
	loads   string            // load statements (emitted at the top of the package file)
	defs    string            // top-level text
	use     string            // expression that uses the unit (empty: the unit brings its own target)
	own     string            // full text of the unit's own target(s), if any
	ownLbl  []string          // names of the targets in own whose fingerprint the sens mutations must change
	ownDeps []string          // names of further targets defined in own
	files   map[string]string // helper modules and source files
	sens    [][3]string       // file ("" = package file), old, new
	what    []string
	flags   []string
}

var boundaryInts = []string{"0", "1", "255", "256", "257", "65535", "65536", "65537", "2147483647", "2147483648",
	"-1", "-255", "-2147483648", "-2147483649", "4294967296", "9223372036854775807", "9223372036854775808",
	"123456789012345678901234567890", "-123456789012345678901234567890"}

func strLit(n int, c byte) string { return "\"" + strings.Repeat(string(c), n) + "\"" }

func genUnit(r *rng, kind string, s string) unit {
	u := unit{feature: kind, files: map[string]string{}}
	sens := func(file, old, new, what string) {
		u.sens = append(u.sens, [3]string{file, old, new})
		u.what = append(u.what, what)
	}
	switch kind {
	case "const":
		var a, b string
		switch r.below(6) {
		case 0, 1:
			a = r.pick(boundaryInts)
			for b = r.pick(boundaryInts); b == a; b = r.pick(boundaryInts) {
			}
			if r.below(3) == 0 {
				a, b = "256", "65536" // decode to the same value under D1; the encodings still differ
			}
		case 2:
			ls := []int{0, 1, 2, 255, 256, 257, 300, 70000}
			la := ls[r.below(len(ls))]
			a, b = strLit(la, 'a'), strLit(la+1, 'a')
			if r.below(2) == 0 {
				b = strLit(la, 'a')
				if la > 0 {
					b = strLit(la-1, 'a') + "b\""
					b = "\"" + strings.Repeat("a", la-1) + "b\""
				} else {
					b = "\"b\""
				}
			}
		case 3:
			fs := []string{"0.0", "-0.0", "1.5", "1e308", "5e-324", "0.1", "-2.5"}
			a = r.pick(fs)
			for b = r.pick(fs); b == a; b = r.pick(fs) {
			}
		case 4:
			a, b = "b\"\\x00\\xff\"", "b\"\\x00\\xfe\""
			if r.below(2) == 0 {
				a, b = "\"é世\"", "\"é界\""
			}
		default:
			vs := []string{"True", "False", "None", "0", "\"\"", "b\"\"", "()", "0.0"}
			a = r.pick(vs)
			for b = r.pick(vs); b == a; b = r.pick(vs) {
			}
		}
		u.defs = fmt.Sprintf("def k_%s():\n    v_%s = %s\n    return v_%s\n", s, s, a, s)
		u.use = fmt.Sprintf("k_%s()", s)
		sens("", fmt.Sprintf("v_%s = %s\n", s, a), fmt.Sprintf("v_%s = %s\n", s, b), "constant in a helper body")
	case "global":
		a, b := r.pick(boundaryInts), ""
		for b = r.pick(boundaryInts); b == a; b = r.pick(boundaryInts) {
		}
		if r.below(3) == 0 {
			a, b = "float(\"nan\")", "float(\"+inf\")"
		}
		u.defs = fmt.Sprintf("G_%s = %s\ndef k_%s():\n    return G_%s\n", s, a, s, s)
		u.use = fmt.Sprintf("k_%s()", s)
		sens("", fmt.Sprintf("G_%s = %s\n", s, a), fmt.Sprintf("G_%s = %s\n", s, b), "value of a referenced global")
	case "container":
		sizes := []int{0, 1, 2, 3, 4, 5, 10, 998, 999, 1000, 1001, 1999, 2000, 2001, 2999, 3000}
		n := sizes[r.below(len(sizes))]
		var expr string
		switch r.below(7) {
		case 0:
			expr = fmt.Sprintf("[i * 7 for i in range(%d)] + [40030]", n)
		case 1:
			expr = fmt.Sprintf("dict([(str(i), i) for i in range(%d)] + [(\"k\", 40030)])", n)
		case 2:
			expr = fmt.Sprintf("set([i for i in range(%d)] + [40030])", n)
		case 3:
			expr = fmt.Sprintf("tuple([i for i in range(%d)] + [40030])", n)
		case 4:
			expr = fmt.Sprintf("[[i, [i, (i, 7)], {i: (i,)}] for i in range(%d)] + [40030]", n%40)
		case 5:
			expr = fmt.Sprintf("[\"s\" + str(i) for i in range(%d)] + [\"40030\"]", n)
		default:
			expr = fmt.Sprintf("dict([(i, [i]) for i in range(%d)] + [(-1, 40030)])", n)
		}
		if r.below(8) == 0 {
			expr = "[]"
			u.defs = fmt.Sprintf("G_%s = %s\ndef k_%s():\n    return len(G_%s)\n", s, expr, s, s)
			sens("", fmt.Sprintf("G_%s = []\n", s), fmt.Sprintf("G_%s = [40031]\n", s), "empty list gets an element")
		} else {
			u.defs = fmt.Sprintf("G_%s = %s\ndef k_%s():\n    return len(G_%s)\n", s, expr, s, s)
			sens("", fmt.Sprintf("G_%s = %s\n", s, expr), fmt.Sprintf("G_%s = %s\n", s, strings.Replace(expr, "40030", "40031", 1)),
				"one element of a large referenced container")
		}
		u.use = fmt.Sprintf("k_%s()", s)
	case "shared":
		u.defs = fmt.Sprintf("S_%s = [40030]\nG_%s = [S_%s, S_%s, (S_%s, S_%s), {\"a\": S_%s}, [S_%s]]\ndef k_%s():\n    return len(G_%s)\n",
			s, s, s, s, s, s, s, s, s, s)
		u.use = fmt.Sprintf("k_%s()", s)
		sens("", fmt.Sprintf("S_%s = [40030]\n", s), fmt.Sprintf("S_%s = [40031]\n", s), "element of a list shared by several containers")
		sens("", fmt.Sprintf("G_%s = [S_%s, S_%s,", s, s, s), fmt.Sprintf("G_%s = [S_%s, [40030],", s, s, ),
			"an alias replaced by an equal but distinct list")
	case "fact":
		u.defs = fmt.Sprintf("def fact_%s(n):\n    if n <= 1:\n        return 40030\n    return n * fact_%s(n - 1)\n", s, s)
		u.use = fmt.Sprintf("fact_%s(3)", s)
		sens("", "        return 40030\n    return n * fact_"+s, "        return 40031\n    return n * fact_"+s, "body of a recursive function")
	case "mutual":
		u.defs = fmt.Sprintf("def even_%s(n):\n    if n == 0:\n        return True\n    return odd_%s(n - 1)\n"+
			"def odd_%s(n):\n    if n == 0:\n        return 40030 == 0\n    return third_%s(n)\n"+
			"def third_%s(n):\n    return even_%s(n - 1) or 40040 == 0\n", s, s, s, s, s, s)
		u.use = fmt.Sprintf("even_%s(4)", s)
		sens("", "return 40030 == 0\n    return third_"+s, "return 40031 == 0\n    return third_"+s, "function reached only through the cycle")
		sens("", "or 40040 == 0\n", "or 40041 == 0\n", "third function of a mutual recursion")
	case "closure":
		u.defs = fmt.Sprintf("def mk_%s(k):\n    def inner_%s(x):\n        return x + k + 40040\n    return inner_%s\nadd_%s = mk_%s(40030)\n", s, s, s, s, s)
		u.use = fmt.Sprintf("add_%s(1)", s)
		sens("", fmt.Sprintf("add_%s = mk_%s(40030)\n", s, s), fmt.Sprintf("add_%s = mk_%s(40031)\n", s, s), "value of a free variable")
		sens("", "return x + k + 40040\n    return inner_"+s, "return x + k + 40041\n    return inner_"+s, "body of a closure")
	case "defaults":
		u.defs = fmt.Sprintf("def h_%s(x, y=40030, z=[40040, 1], *, w=40050):\n    return x + y + z[0] + w\n", s)
		u.use = fmt.Sprintf("h_%s(1)", s)
		sens("", fmt.Sprintf("def h_%s(x, y=40030,", s), fmt.Sprintf("def h_%s(x, y=40031,", s), "default parameter value")
		sens("", "z=[40040, 1], *, w=40050):\n    return x + y + z[0] + w\n", "z=[40041, 1], *, w=40050):\n    return x + y + z[0] + w\n", "element of a mutable default")
		sens("", "*, w=40050):\n    return x + y + z[0] + w\n", "*, w=40051):\n    return x + y + z[0] + w\n", "keyword-only default")
	case "nested":
		u.own = fmt.Sprintf("@target()\ndef t_%s():\n    \"\"\"doc %s v1\"\"\"\n    def sq_%s(v):\n        return v * 40030\n"+
			"    f_%s = lambda v: v + 40040\n    r = [sq_%s(i) for i in range(3)] + [f_%s(1)] + [k for k in {1: 40050}]\n    return None\n", s, s, s, s, s, s)
		u.ownLbl = []string{"t_" + s}
		sens("", "        return v * 40030\n", "        return v * 40031\n", "nested def inside the target")
		sens("", "lambda v: v + 40040\n", "lambda v: v + 40041\n", "lambda inside the target")
		sens("", "{1: 40050}]\n", "{1: 40051}]\n", "comprehension inside the target")
	case "cyclic":
		switch r.below(5) {
		case 0:
			u.defs = fmt.Sprintf("V_%s = [40030]\nV_%s.append(V_%s)\n", s, s, s)
			sens("", fmt.Sprintf("V_%s = [40030]\n", s), fmt.Sprintf("V_%s = [40031]\n", s), "scalar inside a list that contains itself")
		case 1:
			u.defs = fmt.Sprintf("V_%s = {\"k\": 40030}\nV_%s[\"self\"] = V_%s\n", s, s, s)
			sens("", fmt.Sprintf("V_%s = {\"k\": 40030}\n", s), fmt.Sprintf("V_%s = {\"k\": 40031}\n", s), "scalar inside a dict that contains itself")
		case 2:
			u.defs = fmt.Sprintf("V_%s = [40030]\nB_%s = [V_%s]\nV_%s.append(B_%s)\n", s, s, s, s, s)
			sens("", fmt.Sprintf("V_%s = [40030]\n", s), fmt.Sprintf("V_%s = [40031]\n", s), "scalar inside two lists that contain each other")
		case 3:
			u.defs = fmt.Sprintf("V_%s = [40030]\nT_%s = (V_%s, 1)\nV_%s.append(T_%s)\n", s, s, s, s, s)
			sens("", fmt.Sprintf("V_%s = [40030]\n", s), fmt.Sprintf("V_%s = [40031]\n", s), "scalar inside a cycle through a tuple")
		default:
			u.defs = fmt.Sprintf("V_%s = {\"k\": [40030]}\nV_%s[\"k\"].append({\"up\": V_%s})\n", s, s, s)
			sens("", fmt.Sprintf("V_%s = {\"k\": [40030]}\n", s), fmt.Sprintf("V_%s = {\"k\": [40031]}\n", s), "scalar inside a dict-list-dict cycle")
		}
		u.defs += fmt.Sprintf("def k_%s():\n    return len(V_%s)\n", s, s)
		u.use = fmt.Sprintf("k_%s()", s)
	case "deep":
		depths := []int{5, 200, 999, 1000, 1001, 1500}
		n := depths[r.below(len(depths))]
		wrap := []string{"[r]", "(r,)", "{\"d\": r}", "[r, 1]", "(1, [r])"}[r.below(5)]
		u.defs = fmt.Sprintf("def nest_%s(n):\n    r = [40030]\n    for _ in range(n):\n        r = %s\n    return r\nD_%s = nest_%s(%d)\ndef k_%s():\n    return len(D_%s)\n",
			s, wrap, s, s, n, s, s)
		u.use = fmt.Sprintf("k_%s()", s)
		sens("", "    r = [40030]\n    for _ in range(n):\n        r = "+wrap+"\n    return r\nD_"+s, "    r = [40031]\n    for _ in range(n):\n        r = "+wrap+"\n    return r\nD_"+s,
			fmt.Sprintf("innermost element of data nested %d deep", n))
	case "predeclared":
		all := []string{"os", "sh", "json", "host", "package", "path", "label", "contains", "glob", "fail", "Cache", "target", "parse_flag",
			"host.os", "os.path", "os.path.join", "sh.exec", "json.encode", "os.environ", "len", "print", "str", "True", "None", "range", "sorted", "dict", "getattr"}
		k := 1 + r.below(len(all))
		var ns []string
		for i := 0; i < k; i++ {
			ns = append(ns, all[r.below(len(all))])
		}
		ns = append(ns, "host.os")
		u.defs = fmt.Sprintf("def k_%s():\n    return [%s]\n", s, strings.Join(ns, ", "))
		u.use = fmt.Sprintf("len(k_%s())", s)
		sens("", fmt.Sprintf("def k_%s():\n    return [%s]\n", s, strings.Join(ns, ", ")), fmt.Sprintf("def k_%s():\n    return [%s, host.arch]\n", s, strings.Join(ns[:len(ns)-1], ", ")),
			"which attribute of a predeclared value is used")
	case "environ":
		u.defs = fmt.Sprintf("E_%s = os.environ()\nW_%s = os.getcwd()\ndef k_%s():\n    return [len(E_%s), W_%s, 40030]\n", s, s, s, s, s)
		u.use = fmt.Sprintf("len(k_%s())", s)
		sens("", "W_"+s+", 40030]\n", "W_"+s+", 40031]\n", "constant next to the process environment")
	case "flag":
		u.defs = fmt.Sprintf("F_%s = parse_flag(\"f_%s\", default=40030)\nI_%s = parse_flag(\"i_%s\", type=int, default=7)\nB_%s = parse_flag(\"b_%s\", type=bool, help=\"h\")\n"+
			"def k_%s():\n    return [F_%s, I_%s, B_%s]\n", s, s, s, s, s, s, s, s, s, s)
		u.use = fmt.Sprintf("len(k_%s())", s)
		// no command-line arguments: every parse_flag call parses ALL arguments with a flag set that knows only
		// its own flag, so any argument makes every other parse_flag of the project fail ("unknown flag")
		sens("", fmt.Sprintf("parse_flag(\"f_%s\", default=40030)\n", s), fmt.Sprintf("parse_flag(\"f_%s\", default=40031)\n", s), "default of a flag the function reads")
	case "targetref":
		u.own = fmt.Sprintf("@target()\ndef a_%s():\n    return None\n@target(deps=[a_%s], sources=[\"src_%s.txt\"])\ndef b_%s():\n    return None\nREF_%s = a_%s\n", s, s, s, s, s, s)
		u.files["src_"+s+".txt"] = "source " + s + "\n"
		u.ownDeps = []string{"a_" + s, "b_" + s}
		u.defs = fmt.Sprintf("def k_%s():\n    return [REF_%s.label, REF_%s]\n", s, s, s)
		u.use = fmt.Sprintf("len(k_%s())", s)
		sens("", fmt.Sprintf("REF_%s = a_%s\n", s, s), fmt.Sprintf("REF_%s = b_%s\n", s, s), "which target a global refers to")
	case "cache":
		u.defs = fmt.Sprintf("C_%s = Cache()\nPRE_%s = C_%s.once(\"pre\", lambda: 40040)\ndef k_%s():\n    return C_%s.once(\"k\", lambda: 40030) + PRE_%s\n", s, s, s, s, s, s)
		u.use = fmt.Sprintf("k_%s()", s)
		sens("", "lambda: 40030) + PRE_"+s, "lambda: 40031) + PRE_"+s, "lambda passed to Cache.once")
		sens("", "lambda: 40040)\n", "lambda: 40041)\n", "value computed through a Cache at load time")
	case "labels":
		u.defs = fmt.Sprintf("P_%s = path(\":x_%s.txt\")\nL_%s = label(\"x_%s.txt\")\nQ_%s = contains(\"x_%s.txt\")\ndef k_%s():\n    return [P_%s, L_%s, Q_%s, package, 40030]\n",
			s, s, s, s, s, s, s, s, s, s)
		u.use = fmt.Sprintf("len(k_%s())", s)
		sens("", fmt.Sprintf("L_%s = label(\"x_%s.txt\")\n", s, s), fmt.Sprintf("L_%s = label(\"y_%s.txt\")\n", s, s), "label value held in a global")
	case "helper":
		u.loads = fmt.Sprintf("load(\"//lib:h_%s.dawn\", \"helper_%s\", alias_%s=\"other_%s\")\n", s, s, s, s)
		u.files["lib/h_"+s+".dawn"] = fmt.Sprintf("load(\":h2_%s.dawn\", \"inner_%s\")\nHG_%s = [40050]\ndef helper_%s(x):\n    return inner_%s(x) + 40030 + HG_%s[0]\ndef other_%s(x):\n    return x\n", s, s, s, s, s, s, s)
		u.files["lib/h2_"+s+".dawn"] = fmt.Sprintf("def inner_%s(x):\n    return x * 40040\n", s)
		u.use = fmt.Sprintf("helper_%s(2) + alias_%s(1)", s, s)
		sens("lib/h_"+s+".dawn", "+ 40030 +", "+ 40031 +", "body of a function loaded from a helper module")
		sens("lib/h2_"+s+".dawn", "x * 40040\n", "x * 40041\n", "body of a transitively loaded helper")
		sens("lib/h_"+s+".dawn", fmt.Sprintf("HG_%s = [40050]\n", s), fmt.Sprintf("HG_%s = [40051]\n", s), "global of the helper module")
	case "fncontainer":
		u.defs = fmt.Sprintf("FNS_%s = {}\ndef a_%s(n):\n    return 0 if n <= 0 else FNS_%s[\"b\"](n - 1)\ndef b_%s(n):\n    return a_%s(n) + 40030\nFNS_%s[\"b\"] = b_%s\n", s, s, s, s, s, s, s)
		u.use = fmt.Sprintf("a_%s(2)", s)
		sens("", fmt.Sprintf("return a_%s(n) + 40030\n", s), fmt.Sprintf("return a_%s(n) + 40031\n", s), "function reached only through a dict it is stored in")
	case "lambdacycle":
		u.defs = fmt.Sprintf("a_%s = lambda n: 0 if n <= 0 else b_%s(n - 1) + 40030\nb_%s = lambda n: 0 if n <= 0 else c_%s(n - 1) + 40040\nc_%s = a_%s\n", s, s, s, s, s, s)
		u.use = fmt.Sprintf("a_%s(3)", s)
		sens("", fmt.Sprintf("c_%s = a_%s\n", s, s), fmt.Sprintf("c_%s = b_%s\n", s, s), "which of two in-progress lambdas a global refers to")
		sens("", "+ 40040\n", "+ 40041\n", "second lambda of the cycle")
	case "samename":
		u.defs = fmt.Sprintf("def mkA_%s():\n    def same(n):\n        return 0 if n <= 0 else HB_%s[0](n - 1) + 40030\n    return same\n"+
			"def mkB_%s():\n    def same(n):\n        return 0 if n <= 0 else HC_%s[0](n - 1) + 40040\n    return same\n"+
			"fa_%s = mkA_%s()\nfb_%s = mkB_%s()\nHB_%s = [fb_%s]\nHC_%s = [fa_%s]\n", s, s, s, s, s, s, s, s, s, s, s, s)
		u.use = fmt.Sprintf("fa_%s(3)", s)
		sens("", fmt.Sprintf("HC_%s = [fa_%s]\n", s, s), fmt.Sprintf("HC_%s = [fb_%s]\n", s, s), "which of two in-progress functions of the same name a list holds")
	case "kwonly":
		u.defs = fmt.Sprintf("def h_%s(x, *, key):\n    return x + key + 40030\n", s)
		u.use = fmt.Sprintf("h_%s(1, key=2)", s)
		sens("", "return x + key + 40030\n", "return x + key + 40031\n", "body of a function with a required keyword-only parameter")
	case "signature":
		switch r.below(4) {
		case 0:
			u.defs = fmt.Sprintf("def g_%s(*args):\n    return args\n", s)
			u.use = fmt.Sprintf("g_%s((1, 2))", s)
			sens("", fmt.Sprintf("def g_%s(*args):\n", s), fmt.Sprintf("def g_%s(args):\n", s), "signature: *args becomes a positional parameter")
		case 1:
			u.defs = fmt.Sprintf("def g_%s(x, y):\n    return x\n", s)
			u.use = fmt.Sprintf("g_%s(y=1, x=2)", s)
			sens("", fmt.Sprintf("def g_%s(x, y):\n    return x\n", s), fmt.Sprintf("def g_%s(y, x):\n    return y\n", s), "signature: parameter names swapped (callers pass keywords)")
		case 2:
			u.defs = fmt.Sprintf("def g_%s(a, **kw):\n    return kw\n", s)
			u.use = fmt.Sprintf("g_%s(1)", s)
			sens("", fmt.Sprintf("def g_%s(a, **kw):\n", s), fmt.Sprintf("def g_%s(a, kw):\n", s), "signature: **kw becomes a positional parameter")
		default:
			u.defs = fmt.Sprintf("def g_%s(a, b):\n    return a\n", s)
			u.use = fmt.Sprintf("g_%s(1, 2)", s)
			sens("", fmt.Sprintf("def g_%s(a, b):\n", s), fmt.Sprintf("def g_%s(a, *, b):\n", s), "signature: a parameter becomes keyword-only")
		}
	case "builtinalias":
		switch r.below(4) {
		case 0:
			u.defs = fmt.Sprintf("h_%s = len\n", s)
			u.use = fmt.Sprintf("h_%s(\"abc\")", s)
			sens("", fmt.Sprintf("h_%s = len\n", s), fmt.Sprintf("h_%s = str\n", s), "which builtin a global is an alias of")
		case 1:
			u.defs = fmt.Sprintf("h_%s = \"abc\".upper\n", s)
			u.use = fmt.Sprintf("h_%s()", s)
			sens("", fmt.Sprintf("h_%s = \"abc\".upper\n", s), fmt.Sprintf("h_%s = \"abd\".upper\n", s), "receiver of a bound method held in a global")
		case 2:
			u.defs = fmt.Sprintf("h_%s = os.path.base\n", s)
			u.use = fmt.Sprintf("h_%s(\"a/b\")", s)
			sens("", fmt.Sprintf("h_%s = os.path.base\n", s), fmt.Sprintf("h_%s = os.path.dir\n", s), "which module function a global is an alias of")
		default:
			u.defs = fmt.Sprintf("h_%s = [sorted, 1]\n", s)
			u.use = fmt.Sprintf("h_%s[0]([2, 1])", s)
			sens("", fmt.Sprintf("h_%s = [sorted, 1]\n", s), fmt.Sprintf("h_%s = [reversed, 1]\n", s), "which builtin a list holds")
		}
		u.defs += fmt.Sprintf("def k_%s():\n    return %s\n", s, u.use)
		u.use = fmt.Sprintf("k_%s()", s)
	case "values":
		u.defs = fmt.Sprintf("R_%s = range(3, 17)\nE_%s = \"abc\".elems()\nZ_%s = [float(\"nan\"), float(\"-inf\"), -0.0, 1 << 70, b\"\\x00\", \"é\", (), [], {}, set(), None, True]\n"+
			"J_%s = json.decode('{\"a\": [1, 2, {\"b\": 40030}]}')\ndef q_%s(x, y=3):\n    return x\nN_%s = [q_%s.name(), q_%s.env(), enumerate([\"a\"]), zip([1], [2])]\n"+
			"def k_%s():\n    return [R_%s, E_%s, Z_%s, J_%s, N_%s]\n", s, s, s, s, s, s, s, s, s, s, s, s, s, s)
		u.use = fmt.Sprintf("len(k_%s())", s)
		sens("", fmt.Sprintf("R_%s = range(3, 17)\n", s), fmt.Sprintf("R_%s = range(3, 18)\n", s), "bound of a range value")
		sens("", "{\"b\": 40030}]}')\n", "{\"b\": 40031}]}')\n", "number inside decoded JSON")
		sens("", fmt.Sprintf("E_%s = \"abc\".elems()\n", s), fmt.Sprintf("E_%s = \"abd\".elems()\n", s), "string behind an elems() value")
		sens("", fmt.Sprintf("Z_%s = [float(\"nan\"), float(\"-inf\"), -0.0,", s), fmt.Sprintf("Z_%s = [float(\"nan\"), float(\"-inf\"), 0.0,", s), "negative zero becomes zero")
	case "fnvalues":
		u.defs = fmt.Sprintf("def h1_%s():\n    return 40030\ndef h2_%s():\n    return 40040\nHS_%s = [h1_%s, h2_%s, h1_%s, (h2_%s,)]\ndef k_%s():\n    return [h() for h in HS_%s[:3]]\n", s, s, s, s, s, s, s, s, s)
		u.use = fmt.Sprintf("len(k_%s())", s)
		sens("", fmt.Sprintf("def h2_%s():\n    return 40040\n", s), fmt.Sprintf("def h2_%s():\n    return 40041\n", s), "function held in a list the target iterates")
	case "freevarrec":
		u.defs = fmt.Sprintf("def outer_%s():\n    def rec_%s(n):\n        return 40030 if n <= 0 else rec_%s(n - 1)\n    return rec_%s\nR_%s = outer_%s()\n", s, s, s, s, s, s)
		u.use = fmt.Sprintf("R_%s(2)", s)
		sens("", "        return 40030 if n <= 0 else rec_"+s, "        return 40031 if n <= 0 else rec_"+s, "nested function that calls itself through a free variable")
	case "codecycle":
		u.defs = fmt.Sprintf("def f_%s():\n    return len(CC_%s) + 40030\nCC_%s = [f_%s.code()]\n", s, s, s, s)
		u.use = fmt.Sprintf("f_%s()", s)
		sens("", "return len(CC_"+s+") + 40030\n", "return len(CC_"+s+") + 40031\n", "function whose code object is stored in a global it uses")
	case "recshared":
		// a recursive function (memoised twice by the per-encoding pickler: marker, then the finished function) FOLLOWED in
		// traversal order by a memoisable value that is referenced more than once: if the encoder's memo ids drift from the
		// decoder's after the double memoisation, the later BINGET names the wrong object
		rec := fmt.Sprintf("def fact_%s(n):\n    if n <= 1:\n        return 40030\n    return n * fact_%s(n - 1)\n", s, s)
		recName := "fact_" + s
		if r.below(2) == 0 {
			rec = fmt.Sprintf("def even_%s(n):\n    if n == 0:\n        return 40030 == 0\n    return odd_%s(n - 1)\ndef odd_%s(n):\n    if n == 0:\n        return False\n    return even_%s(n - 1)\n", s, s, s, s)
			recName = "even_" + s
		}
		switch r.below(6) {
		case 0:
			u.defs = rec + fmt.Sprintf("A_%s = [40040, 2]\nB_%s = A_%s\ndef k_%s():\n    return [%s(2), A_%s, B_%s]\n", s, s, s, s, recName, s, s)
			sens("", fmt.Sprintf("B_%s = A_%s\n", s, s), fmt.Sprintf("B_%s = %s\n", s, recName), "alias of a shared list becomes the recursive function")
			sens("", fmt.Sprintf("B_%s = A_%s\n", s, s), fmt.Sprintf("B_%s = [40040, 2]\n", s), "alias of a shared list becomes an equal but distinct list")
		case 1:
			u.defs = rec + fmt.Sprintf("A_%s = {\"k\": 40040}\nB_%s = A_%s\ndef k_%s():\n    return [%s(2), A_%s, B_%s]\n", s, s, s, s, recName, s, s)
			sens("", fmt.Sprintf("B_%s = A_%s\n", s, s), fmt.Sprintf("B_%s = %s\n", s, recName), "alias of a shared dict becomes the recursive function")
			sens("", fmt.Sprintf("B_%s = A_%s\n", s, s), fmt.Sprintf("B_%s = {\"k\": 40040}\n", s), "alias of a shared dict becomes an equal but distinct dict")
		case 2:
			u.defs = rec + fmt.Sprintf("A_%s = [40040]\nP_%s = [A_%s, A_%s, (A_%s, 1)]\ndef k_%s():\n    return [%s(2), P_%s]\n", s, s, s, s, s, s, recName, s)
			sens("", fmt.Sprintf("P_%s = [A_%s, A_%s,", s, s, s), fmt.Sprintf("P_%s = [A_%s, %s,", s, s, recName), "second reference to a shared list becomes the recursive function")
			sens("", fmt.Sprintf("P_%s = [A_%s, A_%s,", s, s, s), fmt.Sprintf("P_%s = [A_%s, [40040],", s, s), "second reference to a shared list becomes an equal but distinct list")
		case 3:
			u.defs = rec + fmt.Sprintf("def h_%s():\n    return 40040\nH1_%s = h_%s\nH2_%s = h_%s\ndef k_%s():\n    return [%s(2), H1_%s(), H2_%s()]\n", s, s, s, s, s, s, recName, s, s)
			sens("", fmt.Sprintf("H2_%s = h_%s\n", s, s), fmt.Sprintf("H2_%s = %s\n", s, recName), "second alias of a helper function becomes the recursive function")
		case 4:
			u.defs = rec + fmt.Sprintf("A_%s = [40040, 2]\ndef helper_%s():\n    return A_%s\nC_%s = A_%s\ndef k_%s():\n    return [%s(2), helper_%s(), C_%s]\n", s, s, s, s, s, s, recName, s, s)
			sens("", fmt.Sprintf("C_%s = A_%s\n", s, s), fmt.Sprintf("C_%s = %s\n", s, recName), "list used by a helper and by the target: the target's alias becomes the recursive function")
			sens("", fmt.Sprintf("C_%s = A_%s\n", s, s), fmt.Sprintf("C_%s = [40040, 2]\n", s), "list used by a helper and by the target: the target's alias becomes a distinct equal list")
		default:
			u.defs = rec + fmt.Sprintf("A_%s = set([40040, 2])\nB_%s = A_%s\nD_%s = {\"a\": A_%s, \"b\": B_%s, \"c\": [A_%s]}\ndef k_%s():\n    return [%s(2), D_%s, B_%s]\n", s, s, s, s, s, s, s, s, recName, s, s)
			sens("", fmt.Sprintf("B_%s = A_%s\n", s, s), fmt.Sprintf("B_%s = set([40040, 2])\n", s), "alias of a shared set becomes an equal but distinct set")
		}
		u.use = fmt.Sprintf("len(k_%s())", s)
		sens("", "return 40030", "return 40031", "body of the recursive function in front of the shared value")
	case "hashed":
		// values whose element order could depend on a hash: sets and dicts of strings of 12..40 bytes (the Starlark fork
		// hashes strings of 12 bytes and more with a hash that is seeded per process), bytes, mixed, nested in tuples; as a
		// global, a default parameter value and a free variable
		strs := func(k int, tag string) string {
			var xs []string
			for i := 0; i < k; i++ {
				n := 12 + r.below(29)
				xs = append(xs, "\""+tag+fmt.Sprintf("%02d_", i)+strings.Repeat(string(rune('a'+r.below(26))), n-len(tag)-3)+"\"")
			}
			return strings.Join(xs, ", ")
		}
		k := 3 + r.below(6)
		var val string
		switch r.below(6) {
		case 0:
			val = "set([" + strs(k, "s"+s) + "])"
		case 1:
			val = "dict([(x, len(x)) for x in [" + strs(k, "d"+s) + "]])"
		case 2:
			val = "set([b" + strings.ReplaceAll(strs(k, "b"+s), ", \"", ", b\"") + "])"
		case 3:
			val = "set([" + strs(k, "m"+s) + ", 1, 2, 40040, True, None, (\"" + strings.Repeat("t", 20) + "\", 3)])"
		case 4:
			val = "(set([" + strs(k, "t"+s) + "]), [set([" + strs(2+r.below(3), "u"+s) + "])], {\"k\": set([" + strs(k, "v"+s) + "])})"
		default:
			val = "set([(x, x + \"" + strings.Repeat("z", 15) + "\") for x in [" + strs(k, "p"+s) + "]])"
		}
		switch r.below(3) {
		case 0:
			u.defs = fmt.Sprintf("G_%s = %s\ndef k_%s():\n    return [G_%s, 40030]\n", s, val, s, s)
		case 1:
			u.defs = fmt.Sprintf("def k_%s(x=40030, y=%s):\n    return [x, y]\n", s, val)
		default:
			u.defs = fmt.Sprintf("def mk_%s():\n    c = %s\n    def inner():\n        return [c, 40030]\n    return inner\nk_%s = mk_%s()\n", s, val, s, s)
		}
		u.use = fmt.Sprintf("len(k_%s())", s)
		sens("", "40030", "40031", "constant next to a set / dict of long strings")
	case "eqdistinct":
		// edits between values that starlark equality cannot tell apart but the function can (defect D25): the
		// fingerprint must change AND the engine must re-run the target
		switch r.below(6) {
		case 0:
			u.defs = fmt.Sprintf("X_%s = 1\ndef k_%s():\n    return str(X_%s)\n", s, s, s)
			sens("", fmt.Sprintf("X_%s = 1\n", s), fmt.Sprintf("X_%s = 1.0\n", s), "global 1 becomes 1.0 (equal for ==, printed differently)")
		case 1:
			u.defs = fmt.Sprintf("X_%s = 0.0\ndef k_%s():\n    return str(X_%s)\n", s, s, s)
			sens("", fmt.Sprintf("X_%s = 0.0\n", s), fmt.Sprintf("X_%s = -0.0\n", s), "global 0.0 becomes -0.0 (equal for ==, printed differently)")
		case 2:
			u.defs = fmt.Sprintf("A_%s = [40030]\nP_%s = [A_%s, A_%s]\ndef k_%s():\n    return len(P_%s)\n", s, s, s, s, s, s)
			sens("", fmt.Sprintf("P_%s = [A_%s, A_%s]\n", s, s, s), fmt.Sprintf("P_%s = [A_%s, [40030]]\n", s, s), "one shared list becomes two equal lists")
		case 3:
			u.defs = fmt.Sprintf("def k_%s():\n    v_%s = 2\n    return str(v_%s)\n", s, s, s)
			sens("", fmt.Sprintf("    v_%s = 2\n", s), fmt.Sprintf("    v_%s = 2.0\n", s), "constant 2 in a function body becomes 2.0")
		case 4:
			u.defs = fmt.Sprintf("D_%s = {1: \"a\", 3: [40030]}\ndef k_%s():\n    return str(D_%s)\n", s, s, s)
			sens("", fmt.Sprintf("D_%s = {1: \"a\",", s), fmt.Sprintf("D_%s = {1.0: \"a\",", s), "dict key 1 becomes 1.0")
		default:
			u.defs = fmt.Sprintf("def h_%s(x=1, y=(0.0, [1])):\n    return str(x) + str(y)\ndef k_%s():\n    return h_%s()\n", s, s, s)
			sens("", fmt.Sprintf("def h_%s(x=1, y=(0.0, [1])):\n", s), fmt.Sprintf("def h_%s(x=1.0, y=(-0.0, [1.0])):\n", s), "default parameter values 1, 0.0 become 1.0, -0.0")
		}
		u.use = fmt.Sprintf("k_%s()", s)
	case "slices":
		// values that SHARE STORAGE in the interpreter without being the same value: t[:k] of a tuple points into
		// t's backing array, so an encoder that memoises tuples by the address of their first element (without the
		// length) collapses a tuple and its prefix (seeded change C08-r1). Editing k must change the fingerprint.
		switch r.below(4) {
		case 0:
			u.defs = fmt.Sprintf("ALL_%s = (40030, 40031, 40032, \"x\")\nSOME_%s = ALL_%s[:2]\ndef k_%s():\n    return [ALL_%s, SOME_%s]\n", s, s, s, s, s, s)
			sens("", fmt.Sprintf("SOME_%s = ALL_%s[:2]\n", s, s), fmt.Sprintf("SOME_%s = ALL_%s[:3]\n", s, s), "length of a prefix slice of a tuple the function also references")
		case 1:
			u.defs = fmt.Sprintf("ALL_%s = (40030, 40031, 40032, \"x\")\nSOME_%s = ALL_%s[:3]\ndef k_%s():\n    return [SOME_%s, ALL_%s]\n", s, s, s, s, s, s)
			sens("", fmt.Sprintf("SOME_%s = ALL_%s[:3]\n", s, s), fmt.Sprintf("SOME_%s = ALL_%s[:4]\n", s, s), "prefix slice (visited first) grows to the whole tuple")
		case 2:
			u.defs = fmt.Sprintf("ALL_%s = ((1, 2), (3, 4), (5, 6))\nP_%s = {\"a\": ALL_%s[:1], \"b\": ALL_%s[:2], \"c\": ALL_%s}\ndef k_%s():\n    return P_%s\n", s, s, s, s, s, s, s)
			sens("", fmt.Sprintf("\"b\": ALL_%s[:2],", s), fmt.Sprintf("\"b\": ALL_%s[:1],", s), "one of several prefix slices of a tuple of tuples, held in a dict")
		default:
			u.defs = fmt.Sprintf("ALL_%s = (40030, 40031, 40032)\ndef k_%s(x=ALL_%s, y=ALL_%s[:1]):\n    return [x, y]\n", s, s, s, s)
			sens("", fmt.Sprintf("y=ALL_%s[:1]):\n", s), fmt.Sprintf("y=ALL_%s[:2]):\n", s), "prefix slice of a tuple as a default parameter value next to the tuple")
		}
		u.use = fmt.Sprintf("len(k_%s())", s)
	case "hostkeys":
		// hashable functions, builtins, bound methods, targets and structs as dict KEYS and set ELEMENTS (directly or inside a
		// tuple key). functionEnv decodes what it encodes, and envUnpickler turns functions and structs into (unhashable) dicts:
		// the decoder's dict.SetKey / set.Insert fails for them. Whatever the decoder does with that failure, the fingerprint
		// must be computed without error, deterministically, and an edit to such a key must change it.
		fns := fmt.Sprintf("def compile_%s():\n    return 1\ndef link_%s():\n    return 40030\n", s, s)
		var val, old, new_, what string
		switch r.below(7) {
		case 0:
			val = fmt.Sprintf("{compile_%s: \"c\", link_%s: \"l\"}", s, s)
			old, new_, what = fmt.Sprintf("link_%s: \"l\"}", s), fmt.Sprintf("len: \"l\"}", ), "a function used as a dict key is replaced by a builtin"
		case 1:
			val = fmt.Sprintf("set([compile_%s, link_%s, len])", s, s)
			old, new_, what = fmt.Sprintf("set([compile_%s, link_%s, len])", s, s), fmt.Sprintf("set([compile_%s, len])", s), "a function is removed from a set of functions"
		case 2:
			val = fmt.Sprintf("{(host, \"x\"): 40040, (len, 1): 2, (compile_%s, (link_%s,)): 3}", s, s)
			old, new_, what = "(host, \"x\"): 40040", "(host, \"y\"): 40040", "string inside a tuple key that also holds a struct"
		case 3:
			val = "{len: 1, \"abc\".upper: 40040, str: 3, host: 4}"
			old, new_, what = "\"abc\".upper: 40040", "\"abd\".upper: 40040", "receiver of a bound method used as a dict key"
		case 4:
			fns += fmt.Sprintf("@target()\ndef a_%s():\n    return None\n@target()\ndef b_%s():\n    return None\n", s, s)
			u.ownDeps = []string{"a_" + s, "b_" + s}
			val = fmt.Sprintf("[{a_%s: 40040}, set([a_%s, b_%s]), {(a_%s, compile_%s): 1}]", s, s, s, s, s)
			old, new_, what = fmt.Sprintf("[{a_%s: 40040}", s), fmt.Sprintf("[{b_%s: 40040}", s), "which target is a dict key"
		case 5:
			val = fmt.Sprintf("{compile_%s: {link_%s: [set([compile_%s])]}, \"plain\": 40040}", s, s, s)
			old, new_, what = "\"plain\": 40040", "\"plain\": 40041", "plain entry next to function keys"
		default:
			// a recursive function as a key of a dict it uses itself: the key is the in-progress marker
			fns += fmt.Sprintf("M_%s = {}\ndef memo_%s(n):\n    return M_%s.get(memo_%s, 40040) if n <= 0 else memo_%s(n - 1)\nM_%s[memo_%s] = 1\nM_%s[(memo_%s, 2)] = 2\n", s, s, s, s, s, s, s, s, s)
			val = fmt.Sprintf("[M_%s, memo_%s]", s, s)
			old, new_, what = fmt.Sprintf("M_%s[(memo_%s, 2)] = 2\n", s, s), fmt.Sprintf("M_%s[(memo_%s, 3)] = 2\n", s, s), "tuple key holding the recursive function itself"
		}
		switch r.below(3) {
		case 0:
			u.defs = fns + fmt.Sprintf("G_%s = %s\ndef k_%s():\n    return len(G_%s)\n", s, val, s, s)
		case 1:
			u.defs = fns + fmt.Sprintf("def k_%s(x=%s):\n    return len(x)\n", s, val)
		default:
			u.defs = fns + fmt.Sprintf("def mk_%s():\n    c = %s\n    def inner():\n        return len(c)\n    return inner\nk_%s = mk_%s()\n", s, val, s, s)
		}
		u.use = fmt.Sprintf("k_%s()", s)
		sens("", old, new_, what)
		if strings.Contains(val, "link_"+s) {
			sens("", fmt.Sprintf("def link_%s():\n    return 40030\n", s), fmt.Sprintf("def link_%s():\n    return 40031\n", s), "body of a function that is a dict key / set element")
		}
	case "targetsig":
		// edits of the TARGET function's own signature that leave its bytecode, constants and defaults alone: the only part
		// of the environment that differs is the signature
		switch r.below(3) {
		case 0:
			u.own = fmt.Sprintf("@target()\ndef t_%s(self):\n    v = 40030\n    return None\n", s)
			sens("", fmt.Sprintf("def t_%s(self):\n", s), fmt.Sprintf("def t_%s(this):\n", s), "the target's own parameter is renamed")
		case 1:
			u.own = fmt.Sprintf("@target()\ndef t_%s(self, opt=40030):\n    v = opt\n    return None\n", s)
			sens("", fmt.Sprintf("def t_%s(self, opt=40030):\n", s), fmt.Sprintf("def t_%s(self, *, opt=40030):\n", s), "the target's optional parameter becomes keyword-only")
		default:
			u.own = fmt.Sprintf("@target()\ndef t_%s(self, a=1, b=40030):\n    v = [a, b]\n    return None\n", s)
			sens("", fmt.Sprintf("def t_%s(self, a=1, b=40030):\n", s), fmt.Sprintf("def t_%s(self, a=1, c=40030):\n", s), "one of the target's optional parameters is renamed")
		}
		u.ownLbl = []string{"t_" + s}
	case "closurerec":
		// a nested closure that calls itself through its own free variable, held as a free variable of the TARGET function
		// (nothing binds it to a global, so the module's freeze never walks it and the project loads)
		u.own = fmt.Sprintf("def mk_%s():\n    def walk(n):\n        return 40030 if n <= 0 else walk(n - 1)\n    def even(n):\n        return True if n == 0 else odd(n - 1)\n"+
			"    def odd(n):\n        return 40040 == 0 if n == 0 else even(n - 1)\n    def t_%s():\n        v = [walk(2), even(3)]\n        return None\n    return t_%s\n"+
			"t_%s = target(name=\"t_%s\", function=mk_%s())\n", s, s, s, s, s, s)
		u.ownLbl = []string{"t_" + s}
		sens("", "        return 40030 if n <= 0 else walk(n - 1)\n", "        return 40031 if n <= 0 else walk(n - 1)\n", "nested closure that calls itself through its own free variable")
		sens("", "        return 40040 == 0 if n == 0 else even(n - 1)\n", "        return 40041 == 0 if n == 0 else even(n - 1)\n", "mutually recursive nested closures")
	case "chain":
		// a call chain of 120..260 helpers (each helper is 5-6 levels of encoder recursion: far more than 1000 in all)
		n := 120 + r.below(141)
		var b strings.Builder
		fmt.Fprintf(&b, "def c%d_%s(x):\n    return x + 40030\n", n, s)
		for i := n - 1; i >= 0; i-- {
			fmt.Fprintf(&b, "def c%d_%s(x):\n    return c%d_%s(x)\n", i, s, i+1, s)
		}
		u.defs = b.String()
		u.use = fmt.Sprintf("c0_%s(1)", s)
		sens("", "    return x + 40030\n", "    return x + 40031\n", fmt.Sprintf("last function of a call chain of %d helpers", n))
	case "sharedhelper":
		// loaded by two packages; no nested load (a module in the middle of a nested load that is waited for by a
		// second loader is defect D4 of the module loader, area Loader)
		u.loads = fmt.Sprintf("load(\"//lib:s_%s.dawn\", \"shared_%s\")\n", s, s)
		u.files["lib/s_"+s+".dawn"] = fmt.Sprintf("SG_%s = {\"k\": [40040]}\ndef shared_%s(x):\n    return x + 40030 + SG_%s[\"k\"][0]\n", s, s, s)
		u.use = fmt.Sprintf("shared_%s(1)", s)
		sens("lib/s_"+s+".dawn", "return x + 40030 +", "return x + 40031 +", "helper shared by two packages")
	default:
		panic("unknown unit kind " + kind)
	}
	return u
}

// rebase makes the marker constants of a unit unique in its program: 400xy becomes (410+k)xy
func (u *unit) rebase(k int) {
	var pairs []string
	for _, t := range []string{"30", "31", "40", "41", "50", "51"} {
		pairs = append(pairs, "400"+t, fmt.Sprintf("%d%s", 410+k, t))
	}
	rp := strings.NewReplacer(pairs...)
	u.defs, u.use, u.own, u.loads = rp.Replace(u.defs), rp.Replace(u.use), rp.Replace(u.own), rp.Replace(u.loads)
	for f, c := range u.files {
		u.files[f] = rp.Replace(c)
	}
	for i := range u.sens {
		u.sens[i][1], u.sens[i][2] = rp.Replace(u.sens[i][1]), rp.Replace(u.sens[i][2])
	}
}

var unitKinds = []string{"const", "const", "global", "container", "container", "container", "shared", "fact", "mutual", "closure",
	"defaults", "nested", "cyclic", "cyclic", "deep", "deep", "predeclared", "environ", "flag", "targetref", "cache", "labels", "helper",
	"fncontainer", "lambdacycle", "samename", "kwonly", "signature", "builtinalias", "values", "fnvalues", "codecycle",
	"recshared", "recshared", "hashed", "hashed", "eqdistinct", "eqdistinct", "hostkeys", "hostkeys", "targetsig", "closurerec", "chain", "slices", "slices"}

// Not generated: "freevarrec" (a nested function that calls itself through a free variable). Such a project
// does not load: starlark.ExecFile freezes the module's globals and (*Function).Freeze / (*cell).Freeze of the
// Starlark fork recurse into each other until the Go stack overflows. C08 speaks of functions that load; the
// case is kept as genUnit("freevarrec") for the replay of that observation (-kinds freevarrec).

// assemble one package file from its units
func assemble(pkg string, units []unit, sfx []string) (string, []Mutation, []string) {
	var b strings.Builder
	for _, u := range units {
		b.WriteString(u.loads)
	}
	tag := strings.NewReplacer("/", "_").Replace(pkg)
	fmt.Fprintf(&b, "UNREF_%s = 90010\n", tag)
	var uses, deps []string
	for i, u := range units {
		b.WriteString(u.defs)
		b.WriteString(u.own)
		deps = append(deps, u.ownLbl...)
		deps = append(deps, u.ownDeps...)
		if u.use != "" {
			fmt.Fprintf(&b, "@target()\ndef t_%s():\n    \"\"\"doc %s v1\"\"\"\n    v = %s\n    return None\n", sfx[i], sfx[i], u.use)
			uses = append(uses, u.use)
			deps = append(deps, "t_"+sfx[i])
		}
	}
	fmt.Fprintf(&b, "@target(default=True, deps=[%s])\ndef combo_%s():\n    v = [%s]\n    return None\n", strings.Join(deps, ", "), tag, strings.Join(uses, ", "))
	lbl := func(name string) string {
		if pkg == "" {
			return "//:" + name
		}
		return "//" + pkg + ":" + name
	}
	file := "BUILD.dawn"
	if pkg != "" {
		file = pkg + "/BUILD.dawn"
	}
	var muts []Mutation
	var feats []string
	for i, u := range units {
		feats = append(feats, u.feature)
		var tl []string
		if u.use != "" {
			tl = append(tl, lbl("t_"+sfx[i]), lbl("combo_"+tag))
		}
		for _, o := range u.ownLbl {
			tl = append(tl, lbl(o))
		}
		for j, sm := range u.sens {
			f := sm[0]
			if f == "" {
				f = file
			}
			muts = append(muts, Mutation{Kind: "sens", File: f, Old: sm[1], New: sm[2], What: u.what[j], Feature: u.feature, Targets: tl})
		}
	}
	muts = append(muts,
		Mutation{Kind: "insens", File: file, Old: fmt.Sprintf("UNREF_%s = 90010\n", tag), New: fmt.Sprintf("UNREF_%s = 90011\n", tag), What: "value of an unreferenced global", Feature: "unreferenced"},
		Mutation{Kind: "insens", File: file, Old: fmt.Sprintf("UNREF_%s = 90010\n", tag), New: fmt.Sprintf("# a comment\n\nUNREF_%s  =  90010   # trailing\n\n", tag), What: "comments, blank lines and spacing", Feature: "comments"})
	if len(uses) > 0 && strings.Count(b.String(), fmt.Sprintf("    \"\"\"doc %s v1\"\"\"\n", sfx[0])) == 1 {
		muts = append(muts, Mutation{Kind: "insens", File: file, Old: fmt.Sprintf("    \"\"\"doc %s v1\"\"\"\n", sfx[0]), New: fmt.Sprintf("    \"\"\"doc %s v2, longer\"\"\"\n", sfx[0]), What: "docstring of a target", Feature: "docstring"})
	}
	return b.String(), muts, feats
}

// genProgram builds one project: a root package, sometimes a second package, helper modules.
func genProgram(r *rng, idx int, kinds []string) *Program {
	p := &Program{Files: map[string]string{"dawn.toml": "name = \"p\"\n"}}
	n := 1 + r.below(4)
	if kinds != nil {
		n = len(kinds)
	}
	mk := func(pkg string, n int, first int, kinds []string, extra []unit, extraSfx []string) {
		var units []unit
		var sfx []string
		for i := 0; i < n; i++ {
			s := fmt.Sprintf("u%d", first+i)
			k := unitKinds[r.below(len(unitKinds))]
			if kinds != nil {
				k = kinds[i]
			}
			u := genUnit(r, k, s)
			u.rebase(first + i)
			units = append(units, u)
			sfx = append(sfx, s)
		}
		units = append(units, extra...)
		sfx = append(sfx, extraSfx...)
		text, muts, feats := assemble(pkg, units, sfx)
		file := "BUILD.dawn"
		if pkg != "" {
			file = pkg + "/BUILD.dawn"
		}
		p.Files[file] = text
		for _, u := range units {
			for f, c := range u.files {
				if strings.HasPrefix(f, "lib/") || pkg == "" {
					p.Files[f] = c
				} else {
					p.Files[pkg+"/"+f] = c
				}
			}
			p.Flags = append(p.Flags, u.flags...)
		}
		p.Muts = append(p.Muts, muts...)
		p.Features = append(p.Features, feats...)
	}
	two := kinds == nil && r.below(3) == 0
	if two {
		sh := genUnit(r, "sharedhelper", "s0")
		sh.rebase(300)
		mk("", n, 0, nil, []unit{sh}, []string{"s0"})
		sh2 := sh
		sh2.files = map[string]string{}
		sh2.sens = nil
		sh2.what = nil
		mk("sub", 1+r.below(2), 100, nil, []unit{sh2}, []string{"s0b"})
		// the shared helper's mutation must also change the targets of the second package
		for i := range p.Muts {
			if p.Muts[i].Feature == "sharedhelper" {
				p.Muts[i].Targets = append(p.Muts[i].Targets, "//sub:t_s0b", "//sub:combo_sub")
			}
		}
	} else {
		mk("", n, 0, kinds, nil, nil)
	}
	// deduplicate flags in the sub package naming scheme: flags are named per package by dawn
	sort.Strings(p.Flags)
	// self-check: every mutation applies exactly once
	for _, m := range p.Muts {
		if c := strings.Count(p.Files[m.File], m.Old); c != 1 {
			panic(fmt.Sprintf("generator: mutation %q applies %d times in %s of program %d (%v)", m.Old, c, m.File, idx, p.Features))
		}
	}
	return p
}

// Reads the value graph the pickle encoder will walk off a real Starlark value, through the public APIs of
// the Starlark fork (Function.Env, Function.Code, FunctionCode.ModuleEnv, FunctionCode.Bytecode) — the same
// calls envPickler makes — and prints it in the input syntax of the Lean driver drv_env.
//
// Identity is what the encoder's memo uses: the interface value itself for comparable dynamic types
// (pointers, small structs such as range values). Tuples are never memoised by the encoder; they are given a
// node per backing array so that shared tuples stay shared in the graph (the model re-walks them, as the
// encoder does). Node numbering: all non-tuple nodes in discovery order, then the tuples, children first
// (a tuple's elements exist before the tuple does), which is the `tuplesOrdered` hypothesis of C08_terminates.
package main

import (
	"encoding/hex"
	"fmt"
	"math"
	"reflect"
	"sort"
	"strings"
	"unsafe"

	"github.com/pgavlin/dawn"
	"go.starlark.net/starlark"
)

type node struct {
	kind     byte     // t l m e g b c f M x
	vals     []string // child values (temporary syntax: atoms final, refs as "@<tmp id>")
	a, b     string   // hex name / label, hex bytecode
	isTuple  bool
	children []int // tmp ids of child nodes (for the ordering of tuples)
}

type extractor struct {
	nodes   []*node
	byKey   map[any]int
	byTuple map[[2]uintptr]int
	keep    []starlark.Tuple // every tuple seen stays reachable, so that no backing array address is reused
	notes   map[string]int
}

func newExtractor() *extractor {
	return &extractor{byKey: map[any]int{}, byTuple: map[[2]uintptr]int{}, notes: map[string]int{}}
}

func hexs(s string) string {
	if s == "" {
		return "-"
	}
	return hex.EncodeToString([]byte(s))
}

func (x *extractor) add(n *node) int {
	x.nodes = append(x.nodes, n)
	return len(x.nodes) - 1
}

func (x *extractor) ref(n *node, id int) string {
	n.children = append(n.children, id)
	return fmt.Sprintf("@%d", id)
}

// keyed looks a memoisable value up by the encoder's notion of identity.
func (x *extractor) keyed(v starlark.Value) (id int, found bool, comparable bool) {
	if !reflect.TypeOf(v).Comparable() {
		x.notes["noncomparable:"+v.Type()]++
		return 0, false, false
	}
	defer func() {
		if recover() != nil { // comparable static type with an uncomparable dynamic part
			x.notes["unhashable-go-value:"+v.Type()]++
			id, found, comparable = 0, false, false
		}
	}()
	id, found = x.byKey[v]
	return id, found, true
}

// val returns the driver syntax of v, allocating nodes as needed.
func (x *extractor) val(v starlark.Value) string {
	id, atom := x.visit(v)
	if atom != "" {
		return atom
	}
	return fmt.Sprintf("@%d", id)
}

func (x *extractor) child(parent *node, v starlark.Value) {
	id, atom := x.visit(v)
	if atom != "" {
		parent.vals = append(parent.vals, atom)
		return
	}
	parent.vals = append(parent.vals, x.ref(parent, id))
}

func (x *extractor) visit(v starlark.Value) (int, string) {
	switch v := v.(type) {
	case starlark.NoneType:
		return 0, "n"
	case starlark.Bool:
		if v {
			return 0, "T"
		}
		return 0, "F"
	case starlark.Int:
		return 0, "i" + v.String()
	case starlark.Float:
		return 0, fmt.Sprintf("d%016x", math.Float64bits(float64(v)))
	case starlark.String:
		return 0, "s" + hexs(string(v))
	case starlark.Bytes:
		return 0, "y" + hexs(string(v))
	case starlark.Tuple:
		var key [2]uintptr
		if len(v) > 0 {
			key = [2]uintptr{uintptr(unsafe.Pointer(unsafe.SliceData(v))), uintptr(len(v))}
			if id, ok := x.byTuple[key]; ok {
				return id, ""
			}
		}
		n := &node{kind: 't', isTuple: true}
		id := x.add(n)
		if len(v) > 0 {
			x.byTuple[key] = id
			x.keep = append(x.keep, v)
		}
		for _, e := range v {
			x.child(n, e)
		}
		return id, ""
	case *starlark.Set:
		if id, ok := x.byKey[v]; ok {
			return id, ""
		}
		n := &node{kind: 'e'}
		id := x.add(n)
		x.byKey[v] = id
		for _, e := range v.Elems() {
			x.child(n, e)
		}
		return id, ""
	}
	// encodeComplex: the host pickler first
	id, found, cmp := x.keyed(v)
	if found {
		return id, ""
	}
	reg := func(n *node) int {
		id := x.add(n)
		if cmp {
			x.byKey[v] = id
		}
		return id
	}
	if lbl, ok := dawn.VerifTargetLabel(v); ok {
		return reg(&node{kind: 'g', a: hexs(lbl)}), ""
	}
	switch v := v.(type) {
	case *starlark.Builtin:
		n := &node{kind: 'b', a: hexs(v.Name())}
		id := reg(n)
		if recv := v.Receiver(); recv != nil {
			x.child(n, recv)
		} else {
			n.vals = append(n.vals, "n")
		}
		return id, ""
	case *starlark.FunctionCode:
		n := &node{kind: 'c', a: hexs(v.Name()), b: hexs(string(v.Bytecode()))}
		id := reg(n)
		module, globals := v.ModuleEnv()
		x.child(n, module)
		x.child(n, globals)
		// the signature, through the accessors of the fork
		params := make(starlark.Tuple, v.NumParams())
		for i := range params {
			name, _ := v.Param(i)
			params[i] = starlark.String(name)
		}
		x.child(n, starlark.Tuple{params, starlark.MakeInt(v.NumKwonlyParams()), starlark.Bool(v.HasVarargs()), starlark.Bool(v.HasKwargs())})
		return id, ""
	case *starlark.Function:
		n := &node{kind: 'f', a: hexs(v.Name())}
		id := reg(n)
		defaults, freevars := v.Env()
		x.child(n, defaults)
		x.child(n, freevars)
		x.child(n, v.Code())
		return id, ""
	}
	if v.Type() == "mandatory" {
		return reg(&node{kind: 'M'}), ""
	}
	// then the generic shapes, in the order of the type switch in encodeComplex
	switch v := v.(type) {
	case starlark.IterableMapping:
		n := &node{kind: 'm'}
		id := reg(n)
		for _, kv := range v.Items() {
			x.child(n, kv[0])
			x.child(n, kv[1])
		}
		return id, ""
	case starlark.Sequence:
		n := &node{kind: 'l'}
		id := reg(n)
		it := v.Iterate()
		defer it.Done()
		var el starlark.Value
		for i, ln := 0, v.Len(); i < ln; i++ {
			it.Next(&el)
			x.child(n, el)
		}
		return id, ""
	case starlark.HasAttrs:
		n := &node{kind: 'm'}
		id := reg(n)
		for _, name := range v.AttrNames() {
			av, err := v.Attr(name)
			if err != nil || av == nil {
				x.notes["attr-error:"+v.Type()]++
				n.kind = 'x'
				return id, ""
			}
			n.vals = append(n.vals, "s"+hexs(name))
			x.child(n, av)
		}
		return id, ""
	}
	x.notes["opaque:"+v.Type()]++
	return reg(&node{kind: 'x'}), ""
}

func (x *extractor) note() string {
	if len(x.notes) == 0 {
		return "-"
	}
	var ks []string
	for k, n := range x.notes {
		ks = append(ks, fmt.Sprintf("%s=%d", k, n))
	}
	sort.Strings(ks)
	return strings.Join(ks, ",")
}

// numbering: non-tuples in discovery order, then tuples in an order in which tuple children come first
func (x *extractor) numbering() []int {
	final := make([]int, len(x.nodes))
	next := 0
	for i, n := range x.nodes {
		if !n.isTuple {
			final[i] = next
			next++
		}
	}
	state := make([]byte, len(x.nodes)) // 0 new, 1 on stack, 2 done
	var order []int
	// iterative post-order over tuple→tuple edges (tuples cannot contain themselves through tuples only)
	for i, n := range x.nodes {
		if !n.isTuple || state[i] != 0 {
			continue
		}
		type frame struct{ id, next int }
		stack := []frame{{i, 0}}
		state[i] = 1
		for len(stack) > 0 {
			f := &stack[len(stack)-1]
			ch := x.nodes[f.id].children
			if f.next < len(ch) {
				c := ch[f.next]
				f.next++
				if x.nodes[c].isTuple && state[c] == 0 {
					state[c] = 1
					stack = append(stack, frame{c, 0})
				}
				continue
			}
			state[f.id] = 2
			order = append(order, f.id)
			stack = stack[:len(stack)-1]
		}
	}
	for _, id := range order {
		final[id] = next
		next++
	}
	return final
}

// heap prints all nodes in final numbering; call after val.
func (x *extractor) heap() string {
	if len(x.nodes) == 0 {
		return "."
	}
	final := x.numbering()
	out := make([]string, len(x.nodes))
	fix := func(s string) string {
		if strings.HasPrefix(s, "@") {
			var id int
			fmt.Sscanf(s, "@%d", &id)
			return fmt.Sprintf("r%d", final[id])
		}
		return s
	}
	for i, n := range x.nodes {
		vs := make([]string, len(n.vals))
		for j, v := range n.vals {
			vs[j] = fix(v)
		}
		var s string
		switch n.kind {
		case 't', 'l', 'm', 'e':
			s = string(n.kind) + ":" + strings.Join(vs, ",")
		case 'g':
			s = "g:" + n.a
		case 'b':
			s = "b:" + n.a + "," + vs[0]
		case 'x', 'M':
			s = string(n.kind)
		case 'c':
			s = "c:" + n.a + "," + vs[0] + "," + vs[1] + "," + n.b + "," + vs[2]
		case 'f':
			s = "f:" + n.a + "," + vs[0] + "," + vs[1] + "," + vs[2]
		}
		out[final[i]] = s
	}
	return strings.Join(out, ";")
}

// root reference after numbering
func (x *extractor) fixRoot(r string) string {
	if strings.HasPrefix(r, "@") {
		final := x.numbering()
		var id int
		fmt.Sscanf(r, "@%d", &id)
		return fmt.Sprintf("r%d", final[id])
	}
	return r
}

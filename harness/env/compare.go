// Correspondence streams for the *use* of the fingerprint: starlark.EqualDepth (stream env.eq) and the real
// diffEnv (stream env.decide) against the model, on generated plain Starlark values — lists, dicts, sets and
// tuples with sharing and cycles, NaN / signed zeros / int-float pairs — the shapes of decoded environments.
package main

import (
	"encoding/base64"
	"encoding/json"
	"encoding/hex"
	"fmt"
	"math"
	"strings"

	"github.com/pgavlin/dawn"
	"go.starlark.net/starlark"
)

type pnode struct {
	kind byte     // t l m e
	vals []string // driver syntax
	go_  starlark.Value
}

var cmpAtoms = []struct {
	s string
	v starlark.Value
}{
	{"n", starlark.None}, {"T", starlark.True}, {"F", starlark.False},
	{"i0", starlark.MakeInt(0)}, {"i1", starlark.MakeInt(1)}, {"i-1", starlark.MakeInt(-1)}, {"i2", starlark.MakeInt(2)},
	{"i9007199254740993", starlark.MakeInt64(9007199254740993)}, {"i9007199254740992", starlark.MakeInt64(9007199254740992)},
	{"d0000000000000000", starlark.Float(0)}, {"d8000000000000000", starlark.Float(math.Copysign(0, -1))},
	{"d3ff0000000000000", starlark.Float(1)}, {"dbff0000000000000", starlark.Float(-1)}, {"d4000000000000000", starlark.Float(2)},
	{"d7ff8000000000001", starlark.Float(math.NaN())}, {"d7ff0000000000000", starlark.Float(math.Inf(1))},
	{"d4340000000000000", starlark.Float(9007199254740992)}, {"d3fe0000000000000", starlark.Float(0.5)},
	{"s-", starlark.String("")}, {"s61", starlark.String("a")}, {"s62", starlark.String("b")},
	{"y-", starlark.Bytes("")}, {"y61", starlark.Bytes("a")},
}

func nanBits() string { return fmt.Sprintf("d%016x", math.Float64bits(math.NaN())) }

// genHeap builds a random heap of plain values both as driver text and as real Starlark values.
// Nodes 0..nc-1 are lists / dicts / sets, the rest tuples. Acyclic mode: containers refer to later containers
// and to tuples, tuples to earlier tuples. Cyclic mode: containers refer to anything, tuples to any container
// and to earlier tuples (a tuple's elements exist before the tuple).
func genHeap(r *rng, n int, cyclic bool) []*pnode {
	nodes := make([]*pnode, n)
	nc := 1 + r.below(n)
	for i := 0; i < n; i++ {
		nd := &pnode{kind: 't'}
		if i < nc {
			nd.kind = "llme"[r.below(4)]
			switch nd.kind {
			case 'l':
				nd.go_ = starlark.NewList(nil)
			case 'm':
				nd.go_ = starlark.NewDict(0)
			case 'e':
				nd.go_ = starlark.NewSet(0)
			}
		}
		nodes[i] = nd
	}
	atom := func() (string, starlark.Value) {
		a := cmpAtoms[r.below(len(cmpAtoms))]
		if strings.HasPrefix(a.s, "d7ff8") {
			return nanBits(), a.v
		}
		return a.s, a.v
	}
	ref := func(j int) (string, starlark.Value) { return fmt.Sprintf("r%d", j), nodes[j].go_ }
	for i := nc; i < n; i++ {
		var tup starlark.Tuple = starlark.Tuple{}
		for x, k := 0, r.below(4); x < k; x++ {
			var s string
			var v starlark.Value
			switch c := r.below(3); {
			case c == 0 && i > nc:
				s, v = ref(nc + r.below(i-nc))
			case c == 1 && cyclic:
				s, v = ref(r.below(nc))
			default:
				s, v = atom()
			}
			nodes[i].vals = append(nodes[i].vals, s)
			tup = append(tup, v)
		}
		nodes[i].go_ = tup
	}
	elem := func(i int) (string, starlark.Value) {
		if r.below(2) == 0 {
			if cyclic {
				return ref(r.below(n))
			}
			if i+1 < n {
				return ref(i + 1 + r.below(n-i-1))
			}
		}
		return atom()
	}
	for i := 0; i < nc; i++ {
		nd := nodes[i]
		k := r.below(4)
		switch nd.kind {
		case 'l':
			for x := 0; x < k; x++ {
				s, v := elem(i)
				nd.vals = append(nd.vals, s)
				nd.go_.(*starlark.List).Append(v)
			}
		case 'm':
			keys := []string{"s61", "s62", "i1", "i2", "T", "n"}
			kv := []starlark.Value{starlark.String("a"), starlark.String("b"), starlark.MakeInt(1), starlark.MakeInt(2), starlark.True, starlark.None}
			off := r.below(len(keys))
			for x := 0; x < k; x++ {
				ki := (off + x) % len(keys)
				s, v := elem(i)
				nd.vals = append(nd.vals, keys[ki], s)
				nd.go_.(*starlark.Dict).SetKey(kv[ki], v)
			}
		case 'e':
			elems := []string{"i1", "i2", "s61", "T", "n", "i0"}
			ev := []starlark.Value{starlark.MakeInt(1), starlark.MakeInt(2), starlark.String("a"), starlark.True, starlark.None, starlark.MakeInt(0)}
			off := r.below(len(elems))
			for x := 0; x < k; x++ {
				ei := (off + x) % len(elems)
				nd.vals = append(nd.vals, elems[ei])
				nd.go_.(*starlark.Set).Insert(ev[ei])
			}
		}
	}
	return nodes
}

// reasonStream: the reason text of the real diffEnv for environments that differ in a chosen set of top-level keys
// (known parts of functionEnvKeys and unknown ones) against the model's `reasonFor`
// reasonKeysOverride: replay of one case of the stream
var reasonKeysOverride []string

func reasonStream(r *rng, tier string) {
	keys := dawn.VerifEnvKeys()
	unknown := []string{"zzz", "signature", "Names", "free  variables"}
	n := 150
	if tier == "thorough" {
		n = 3000
	}
	if tier == "replay1" {
		n = 3
	}
	for i := 0; i < n; i++ {
		var chosen []string
		for _, k := range keys {
			if r.below(4) == 0 {
				chosen = append(chosen, k)
			}
		}
		if r.below(3) == 0 || len(chosen) == 0 && r.below(2) == 0 {
			chosen = append(chosen, unknown[r.below(len(unknown))])
		}
		if len(chosen) == 0 {
			chosen = append(chosen, keys[r.below(len(keys))])
		}
		if reasonKeysOverride != nil {
			chosen = reasonKeysOverride
		}
		oldEnv, newEnv := starlark.NewDict(0), starlark.NewDict(0)
		for _, k := range keys {
			oldEnv.SetKey(starlark.String(k), starlark.MakeInt(1))
			newEnv.SetKey(starlark.String(k), starlark.MakeInt(1))
		}
		var hx []string
		for j, k := range chosen {
			switch (i + j) % 3 {
			case 0:
				newEnv.SetKey(starlark.String(k), starlark.MakeInt(2)) // changed (or added, for an unknown key)
			case 1:
				oldEnv.SetKey(starlark.String(k), starlark.MakeInt(3)) // changed / only in the old record
			default:
				newEnv.SetKey(starlark.String(k), starlark.NewList([]starlark.Value{starlark.MakeInt(1)}))
			}
			hx = append(hx, hexs(k))
		}
		res := func() (res string) {
			defer func() {
				if e := recover(); e != nil {
					res = "panic"
				}
			}()
			eq, reason, err := dawn.VerifDiffEnv(oldEnv, "b2xk", newEnv, "bmV3")
			if err != nil || eq {
				return fmt.Sprintf("unexpected eq=%v err=%v", eq, err)
			}
			return "ok " + hexs(reason)
		}()
		emitC("env.reasontext", fmt.Sprintf("reason %s %s", reasonRule, strings.Join(hx, ",")), res)
		if res == "panic" {
			// the property's own predicate on the implementation: computing the reason must not kill the build
			b, _ := json.Marshal(map[string]any{"kind": "diffenv-panic", "feature": "reasontext", "key": "diffenv-panic:reasontext", "target": "",
				"detail": fmt.Sprintf("diffEnv panics for two environments that differ exactly in the top-level keys %q (a record with a part this version does not list in functionEnvKeys)", chosen),
				"input": map[string]any{"stream": "env.reasontext", "keys": chosen}})
			outMu.Lock()
			stats["violations"]++
			if nviolK["diffenv-panic"] < 2 {
				fmt.Fprintf(out, "V\t%s\n", b)
			}
			nviolK["diffenv-panic"]++
			outMu.Unlock()
		}
		hist("reasontext_outcome", strings.SplitN(res, " ", 2)[0])
	}
}

func heapText(nodes []*pnode) string {
	var parts []string
	for _, n := range nodes {
		parts = append(parts, string(n.kind)+":"+strings.Join(n.vals, ","))
	}
	return strings.Join(parts, ";")
}

// copyHeap appends a structural copy of nodes (same shape, fresh Go objects), optionally with one atom changed
// equalButDistinct makes copyHeap replace the int 1 by the float 1.0, 0.0 by -0.0 and back: values that
// starlark.EqualDepth calls equal although a function can tell them apart (defect D25)
var equalButDistinct = false

func copyHeap(r *rng, nodes []*pnode, perturb bool) []*pnode {
	n := len(nodes)
	cp := make([]*pnode, n)
	for i, nd := range nodes {
		c := &pnode{kind: nd.kind}
		switch nd.kind {
		case 'l':
			c.go_ = starlark.NewList(nil)
		case 'm':
			c.go_ = starlark.NewDict(0)
		case 'e':
			c.go_ = starlark.NewSet(0)
		}
		cp[i] = c
	}
	target := -1
	if perturb {
		target = r.below(n)
	}
	valOf := func(s string) (string, starlark.Value) {
		if strings.HasPrefix(s, "r") {
			var j int
			fmt.Sscanf(s, "r%d", &j)
			return fmt.Sprintf("r%d", j+n), cp[j].go_
		}
		if equalButDistinct {
			switch s {
			case "i1":
				s = "d3ff0000000000000"
			case "d3ff0000000000000":
				s = "i1"
			case "d0000000000000000":
				s = "d8000000000000000"
			case "d8000000000000000":
				s = "d0000000000000000"
			case "i2":
				s = "d4000000000000000"
			}
		}
		for _, a := range cmpAtoms {
			if a.s == s || (strings.HasPrefix(s, "d7ff8") && strings.HasPrefix(a.s, "d7ff8")) {
				return s, a.v
			}
		}
		if strings.HasPrefix(s, "s") {
			b, _ := hex.DecodeString(s[1:])
			return s, starlark.String(string(b))
		}
		panic("atom " + s)
	}
	// tuples in index order (their elements are containers or earlier tuples)
	for i, nd := range nodes {
		if nd.kind != 't' {
			continue
		}
		tup := starlark.Tuple{}
		for x, s := range nd.vals {
			s2, v := valOf(s)
			if i == target && x == 0 && !strings.HasPrefix(s, "r") {
				s2, v = "s7a7a", starlark.String("zz")
			}
			cp[i].vals = append(cp[i].vals, s2)
			tup = append(tup, v)
		}
		cp[i].go_ = tup
	}
	for i, nd := range nodes {
		switch nd.kind {
		case 'l':
			for x, s := range nd.vals {
				s2, v := valOf(s)
				if i == target && x == 0 && !strings.HasPrefix(s, "r") {
					s2, v = "s7a7a", starlark.String("zz")
				}
				cp[i].vals = append(cp[i].vals, s2)
				cp[i].go_.(*starlark.List).Append(v)
			}
		case 'm':
			for x := 0; x+1 < len(nd.vals); x += 2 {
				ks, kv := valOf(nd.vals[x])
				s2, v := valOf(nd.vals[x+1])
				if i == target && x == 0 && !strings.HasPrefix(nd.vals[x+1], "r") {
					s2, v = "s7a7a", starlark.String("zz")
				}
				cp[i].vals = append(cp[i].vals, ks, s2)
				cp[i].go_.(*starlark.Dict).SetKey(kv, v)
			}
		case 'e':
			for _, s := range nd.vals {
				s2, v := valOf(s)
				cp[i].vals = append(cp[i].vals, s2)
				cp[i].go_.(*starlark.Set).Insert(v)
			}
		}
	}
	return cp
}

func compareStreams(r *rng, tier string) {
	reasonStream(r, tier)
	n := 1500
	if tier == "thorough" {
		n = 20000
	}
	limits := []int{1, 2, 3, 5, 8, 1000}
	for i := 0; i < n; i++ {
		cyc := r.below(2) == 0
		nodes := genHeap(r, 1+r.below(6), cyc)
		all := nodes
		x := r.below(len(nodes))
		y := r.below(len(nodes))
		mode := r.below(4)
		if mode >= 1 {
			// compare with a structural copy (mode 1, 3) or a copy with one atom changed (mode 2)
			cp := copyHeap(r, nodes, mode == 2)
			all = append(append([]*pnode{}, nodes...), cp...)
			y = x + len(nodes)
		}
		limit := limits[r.below(len(limits))]
		eq, err := starlark.EqualDepth(all[x].go_, all[y].go_, limit)
		res := "ok 0"
		if err != nil {
			res = "err depth"
			if !strings.Contains(err.Error(), "maximum recursion depth") {
				res = "err other:" + err.Error()
			}
		} else if eq {
			res = "ok 1"
		}
		emitC("env.eq", fmt.Sprintf("eq %d r%d r%d %s", limit, x, y, heapText(all)), res)
		hist("eq_outcome", res)
		if cyc {
			count("eq_cyclic_cases", 1)
		}
	}

	// diffEnv: the environments are dicts (as decoded function environments are)
	which := decideRule
	m := n / 3
	for i := 0; i < m; i++ {
		cyc := r.below(2) == 0
		if which == "old" {
			// in the tree as found a depth error can also come from diff.DiffDepth (area Diff), which this
			// model does not follow: compare either equal-shaped values or shallow acyclic ones
			cyc = cyc && r.below(2) == 0
		}
		nodes := genHeap(r, 1+r.below(5), cyc)
		// wrap: root dict {"global values": node0}
		root := &pnode{kind: 'm', go_: starlark.NewDict(1)}
		root.vals = []string{"s676c6f62616c2076616c756573", "r0"}
		root.go_.(*starlark.Dict).SetKey(starlark.String("global values"), nodes[0].go_)
		mode := r.below(5) // 0 never run, 1 identical copy + same data, 2 identical copy + other data, 3 changed copy,
		// 4 copy with 1 / 1.0 and 0.0 / -0.0 exchanged + other data (equal for EqualDepth, distinct for the function)
		equalButDistinct = mode == 4
		if which == "old" && cyc && mode == 3 {
			mode = 1
		}
		var all []*pnode
		var xs, ys, same string
		var oldEnv, newEnv starlark.Value
		oldData, newData := "", ""
		base := append([]*pnode{}, nodes...)
		base = append(base, root)
		cp := copyHeap(r, base, mode == 3)
		equalButDistinct = false
		all = append(base, cp...)
		xs = fmt.Sprintf("r%d", len(base)-1)
		ys = fmt.Sprintf("r%d", 2*len(base)-1)
		oldEnv, newEnv = base[len(base)-1].go_, cp[len(cp)-1].go_
		newData = base64.StdEncoding.EncodeToString([]byte("new"))
		switch mode {
		case 0:
			oldEnv, xs, same = starlark.None, "-", "0"
		case 1:
			oldData, same = newData, "1"
		default:
			oldData, same = base64.StdEncoding.EncodeToString([]byte("old")), "0"
		}
		res := func() (res string) {
			defer func() {
				if e := recover(); e != nil {
					res = fmt.Sprintf("panic:%v", e)
				}
			}()
			eq, _, err := dawn.VerifDiffEnv(oldEnv, oldData, newEnv, newData)
			if err != nil {
				return "buildError"
			} else if eq {
				return "upToDate"
			}
			return "rerun"
		}()
		emitC("env.decide", fmt.Sprintf("decide %s %s %s %s %s", which, same, xs, ys, heapText(all)), res)
		hist("decide_outcome", res)
	}
}

// Child-process side of the C08 harness: one load (and optionally one build) of one project directory.
// A crash of this process (fatal stack overflow, runtime panic), a hang (killed by the parent's watchdog)
// or an error it reports is the failing input the parent records.
package main

import (
	"bufio"
	"encoding/json"
	"crypto/sha256"
	"encoding/base64"
	"encoding/hex"
	"fmt"
	"os"
	"path/filepath"
	"runtime/debug"
	"sort"
	"strings"
	"sync"
	"syscall"

	"github.com/pgavlin/dawn"
	"github.com/pgavlin/dawn/diff"
	"github.com/pgavlin/dawn/label"
	starlark_os "github.com/pgavlin/dawn/lib/os"
	starlark_sh "github.com/pgavlin/dawn/lib/sh"
	starlark_json "go.starlark.net/lib/json"
	"go.starlark.net/starlark"
)

// events collects target events and serialises the loading of the BUILD.dawn modules in a chosen order.
type events struct {
	m     sync.Mutex
	cond  *sync.Cond
	order []string        // BUILD module labels in the order in which they must load ("" = free)
	done  map[string]bool // modules that finished loading
	log   []string
}

func (e *events) Print(l *label.Label, line string)                         {}
func (e *events) RequirementLoading(l *label.Label, v string)               {}
func (e *events) RequirementLoaded(l *label.Label, v string)                {}
func (e *events) RequirementLoadFailed(l *label.Label, v string, err error) {}
func (e *events) LoadDone(err error)                                        {}
func (e *events) RunDone(err error)                                         {}
func (e *events) FileChanged(l *label.Label)                                {}

func (e *events) ModuleLoading(l *label.Label) {
	if len(e.order) == 0 {
		return
	}
	me := l.String()
	idx := -1
	for i, o := range e.order {
		if o == me {
			idx = i
		}
	}
	if idx <= 0 {
		return
	}
	e.m.Lock()
	for {
		ok := true
		for _, o := range e.order[:idx] {
			if !e.done[o] {
				ok = false
			}
		}
		if ok {
			break
		}
		e.cond.Wait()
	}
	e.m.Unlock()
}

func (e *events) finished(l *label.Label) {
	e.m.Lock()
	e.done[l.String()] = true
	e.m.Unlock()
	e.cond.Broadcast()
}
func (e *events) ModuleLoaded(l *label.Label) { e.finished(l) }
func (e *events) ModuleLoadFailed(l *label.Label, err error) {
	e.add("E\t%s\tmodule-load-failed\t%s", l, oneLine(err.Error()))
	e.finished(l)
}
func (e *events) add(f string, a ...any) {
	e.m.Lock()
	e.log = append(e.log, fmt.Sprintf(f, a...))
	e.m.Unlock()
}
func (e *events) TargetUpToDate(l *label.Label) { e.add("E\t%s\tuptodate\t", l) }
func (e *events) TargetEvaluating(l *label.Label, reason string, d diff.ValueDiff) {
	e.add("E\t%s\tevaluating\t%s", l, oneLine(reason))
}
func (e *events) TargetFailed(l *label.Label, err error) {
	e.add("E\t%s\tfailed\t%s", l, oneLine(err.Error()))
}
func (e *events) TargetSucceeded(l *label.Label, changed bool) { e.add("E\t%s\tsucceeded\t", l) }

func oneLine(s string) string {
	s = strings.ReplaceAll(s, "\n", " | ")
	s = strings.ReplaceAll(s, "\t", " ")
	if len(s) > 400 {
		s = s[:400] + "…"
	}
	return s
}

// buildModules lists the labels of all BUILD.dawn modules under root, sorted.
func buildModules(root string) []string {
	var out []string
	filepath.WalkDir(root, func(p string, d os.DirEntry, err error) error {
		if err != nil {
			return nil
		}
		if d.IsDir() && d.Name() == ".dawn" {
			return filepath.SkipDir
		}
		if !d.IsDir() && d.Name() == "BUILD.dawn" {
			rel, _ := filepath.Rel(root, filepath.Dir(p))
			pkg := "//"
			if rel != "." {
				pkg = "//" + filepath.ToSlash(rel)
			}
			out = append(out, (&label.Label{Kind: "module", Package: pkg, Name: "BUILD.dawn"}).String())
		}
		return nil
	})
	sort.Strings(out)
	return out
}

// childMain: modes
//
//	fp     load; for every function target print  F <label> <sha256 of encoding> <length> [<hex encoding>]
//	       (and with -graph first  G <label> <root> <heap>, flushed BEFORE the real code is called)
//	build  load; run every function target; print the events, then  R <label> <sha256 of the stored stamp>
//	       and  F lines as above, computed after the build
func childMain(mode, root, order string, graph, full, wire, always bool, flags []string, script string) int {
	debug.SetMaxStack(256 << 20)
	// address-space limit: a runaway allocation must kill this process, not the machine
	lim := syscall.Rlimit{Cur: 6 << 30, Max: 6 << 30}
	syscall.Setrlimit(syscall.RLIMIT_AS, &lim)

	out := bufio.NewWriterSize(os.Stdout, 1<<20)
	defer out.Flush()

	ev := &events{done: map[string]bool{}}
	ev.cond = sync.NewCond(&ev.m)
	mods := buildModules(root)
	switch order {
	case "fwd":
		ev.order = mods
	case "rev":
		for i := len(mods) - 1; i >= 0; i-- {
			ev.order = append(ev.order, mods[i])
		}
	}

	proj, err := dawn.Load(root, &dawn.LoadOptions{Args: flags, Events: ev, Builtins: starlark.StringDict{
		"json": starlark_json.Module, "os": starlark_os.Module, "sh": starlark_sh.Module}})
	for _, l := range ev.log {
		fmt.Fprintln(out, l)
	}
	ev.log = nil
	if err != nil {
		fmt.Fprintf(out, "L\tload-error\t%s\n", oneLine(err.Error()))
		return 0
	}
	fmt.Fprintf(out, "L\tloaded\t%s\n", dawn.VerifVariant)
	out.Flush() // the parent must know that the load succeeded even if the real code kills the process later

	var targets []dawn.Target
	for _, t := range proj.Targets() {
		if dawn.IsTarget(t.Label()) && dawn.VerifTargetFunction(t) != nil {
			targets = append(targets, t)
		}
	}
	sort.Slice(targets, func(i, j int) bool { return targets[i].Label().String() < targets[j].Label().String() })

	if mode == "watch" {
		// one long-lived process, as `dawn watch` and the REPL: Load once, build, then for every round of the script apply an
		// edit, Reload, build again. Events are printed per round after a  K <round>  line.
		var rounds []struct {
			File string `json:"file"`
			Old  string `json:"old"`
			New  string `json:"new"`
		}
		raw, err := os.ReadFile(script)
		if err == nil {
			err = json.Unmarshal(raw, &rounds)
		}
		if err != nil {
			fmt.Fprintf(out, "L\tload-error\tscript: %s\n", oneLine(err.Error()))
			return 0
		}
		runRoots := func() {
			var roots []dawn.Target
			for _, t := range proj.Targets() {
				if dawn.IsTarget(t.Label()) && t.Label().Name == "default" {
					roots = append(roots, t)
				}
			}
			sort.Slice(roots, func(i, j int) bool { return roots[i].Label().String() < roots[j].Label().String() })
			for _, t := range roots {
				if err := proj.Run(t.Label(), nil); err != nil {
					ev.add("E\t%s\trun-error\t%s", t.Label(), oneLine(err.Error()))
				}
			}
			for _, l := range ev.log {
				fmt.Fprintln(out, l)
			}
			ev.log = nil
			out.Flush()
		}
		fmt.Fprintf(out, "K\t0\n")
		runRoots()
		for i, rd := range rounds {
			p := filepath.Join(root, rd.File)
			text, err := os.ReadFile(p)
			if err != nil || strings.Count(string(text), rd.Old) != 1 {
				fmt.Fprintf(out, "K\t%d\tedit-does-not-apply\n", i+1)
				break
			}
			os.WriteFile(p, []byte(strings.Replace(string(text), rd.Old, rd.New, 1)), 0644)
			fmt.Fprintf(out, "K\t%d\n", i+1)
			if err := proj.Reload(); err != nil {
				fmt.Fprintf(out, "E\t-\treload-error\t%s\n", oneLine(err.Error()))
				ev.log = nil
				continue
			}
			ev.log = nil
			runRoots()
		}
		fmt.Fprintf(out, "D\tdone\n")
		return 0
	}

	if mode == "build" {
		// one Run per package root (`default` depends on every target of its package): every target is
		// evaluated once per load, as in `dawn build`
		for _, t := range targets {
			if t.Label().Name != "default" {
				continue
			}
			err := proj.Run(t.Label(), &dawn.RunOptions{Always: always})
			for _, l := range ev.log {
				fmt.Fprintln(out, l)
			}
			ev.log = nil
			if err != nil {
				fmt.Fprintf(out, "E\t%s\trun-error\t%s\n", t.Label(), oneLine(err.Error()))
			}
		}
		for _, t := range targets {
			stamp, err := dawn.VerifStamp(t)
			if err != nil {
				fmt.Fprintf(out, "R\t%s\terror\t%s\n", t.Label(), oneLine(err.Error()))
				continue
			}
			raw, _ := base64.StdEncoding.DecodeString(stamp)
			sum := sha256.Sum256(raw)
			fmt.Fprintf(out, "R\t%s\t%s\t%d\n", t.Label(), hex.EncodeToString(sum[:]), len(raw))
		}
		out.Flush()
	}

	for _, t := range targets {
		fn := dawn.VerifTargetFunction(t)
		if graph {
			x := newExtractor()
			r := x.val(fn)
			fmt.Fprintf(out, "G\t%s\t%s\t%s\t%s\n", t.Label(), x.fixRoot(r), x.heap(), x.note())
			out.Flush() // the parent must see the graph even if the real code kills the process
		}
		var wx *extractor
		var wroot string
		if wire {
			wx = newExtractor()
			wroot = wx.val(fn)
		}
		_, raw, err := dawn.VerifFunctionEnv(fn)
		if err != nil {
			fmt.Fprintf(out, "F\t%s\terror\t%s\n", t.Label(), oneLine(err.Error()))
			continue
		}
		if wire && len(wx.notes) == 0 && dawn.VerifVariant == "fixed" {
			fmt.Fprintf(out, "W\t%s\t%s\n", t.Label(), oneLine(checkWiring(wx, wroot, raw, true)))
		}
		sum := sha256.Sum256(raw)
		if full {
			fmt.Fprintf(out, "F\t%s\t%s\t%d\t%s\n", t.Label(), hex.EncodeToString(sum[:]), len(raw), hex.EncodeToString(raw))
		} else {
			fmt.Fprintf(out, "F\t%s\t%s\t%d\n", t.Label(), hex.EncodeToString(sum[:]), len(raw))
		}
	}
	fmt.Fprintf(out, "D\tdone\n")
	return 0
}

// Ground-truth judge for the rebuild REASON (property C16: "the rebuild reason shown for a target names exactly the
// parts of its environment that differ"), harness mode `-mode reason`.
//
// Each case is a one-target project and one edit of which we know, from how the Starlark fork lays out a function's
// environment (FunctionCode.ModuleEnv: names, constants, predeclared, universals, functions, then globals;
// Function.Env: default parameter values, free variables; function.go adds the signature as "parameters" and the
// bytecode as "code") and from functionEnvKeys, WHICH part of the target function's environment it changes
// (`names` holds every name the code mentions: attribute names and the names of predeclared / universal values). The
// project is built, edited and built again in child processes; the reason of the TargetEvaluating event of the
// second build must name exactly those parts. The table is not derived from envUnpickler: a decoder that files a part
// under another key stays self-consistent (old and new are decoded alike) and only ground truth shows it.
package main

import (
	"encoding/json"
	"fmt"
	"os"
	"path/filepath"
	"sort"
	"strings"
	"sync"
	"time"
)

type reasonCase struct {
	Name   string   `json:"name"`
	Build  string   `json:"build"` // BUILD.dawn
	Old    string   `json:"old"`
	New    string   `json:"new"`
	Expect []string `json:"expect"` // functionEnvKeys that must be named, and no others
	// the edit happens together with another ground for a rebuild; target.go gives the parts of the environment
	// precedence over all of them (`case !upToDate:` comes first in the switch of runTarget.Evaluate)
	Old2   string `json:"old2,omitempty"`   // a second edit in the same step (an input of a dependency)
	New2   string `json:"new2,omitempty"`
	Always bool   `json:"always,omitempty"` // the second build runs with RunOptions{Always: true}
	Marker bool   `json:"marker,omitempty"` // the record carries the in-progress marker of an interrupted run (rerun: true)
	Text   string `json:"text,omitempty"`   // controls without an environment edit: the exact reason expected
}

const reasonTarget = "@target(default=True)\n"

func reasonCases(r *rng) []reasonCase {
	c := func(i int) int { return 41000 + 10*r.below(800) + i }
	k1, k2, k3, k4, k5, k6, k7 := c(1), c(2), c(3), c(4), c(5), c(6), c(7)
	pre := [][2]string{{"sh", "os"}, {"os", "json"}, {"host", "package"}, {"glob", "path"}, {"Cache", "fail"}}[r.below(5)]
	uni := [][2]string{{"len", "dir"}, {"str", "repr"}, {"sorted", "reversed"}, {"min", "max"}, {"any", "all"}}[r.below(5)]
	attr := [][2]string{{"upper", "lower"}, {"strip", "title"}, {"keys", "values"}}[r.below(3)]
	recv := "\"abc\""
	if attr[0] == "keys" {
		recv = "{}"
	}
	base := []reasonCase{
		{"constant in the target's body", fmt.Sprintf(reasonTarget+"def t():\n    v = %d\n    return None\n", k1),
			fmt.Sprintf("    v = %d\n", k1), fmt.Sprintf("    v = %d\n", k1+1), []string{"constant values"}, "", "", false, false, ""},
		{"string constant in the target's body", reasonTarget + "def t():\n    v = \"abc\"\n    return None\n",
			"    v = \"abc\"\n", "    v = \"abd\"\n", []string{"constant values"}, "", "", false, false, ""},
		{"predeclared value the target refers to", fmt.Sprintf(reasonTarget+"def t():\n    v = [%s]\n    return None\n", pre[0]),
			fmt.Sprintf("    v = [%s]\n", pre[0]), fmt.Sprintf("    v = [%s]\n", pre[1]), []string{"names", "predeclared values"}, "", "", false, false, ""},
		{"universal builtin the target refers to", fmt.Sprintf(reasonTarget+"def t():\n    v = [%s]\n    return None\n", uni[0]),
			fmt.Sprintf("    v = [%s]\n", uni[0]), fmt.Sprintf("    v = [%s]\n", uni[1]), []string{"names", "universal values"}, "", "", false, false, ""},
		{"attribute name the target uses", fmt.Sprintf(reasonTarget+"def t():\n    x = %s\n    v = x.%s\n    return None\n", recv, attr[0]),
			fmt.Sprintf("    v = x.%s\n", attr[0]), fmt.Sprintf("    v = x.%s\n", attr[1]), []string{"names"}, "", "", false, false, ""},
		{"global the target refers to", fmt.Sprintf("G = %d\n"+reasonTarget+"def t():\n    v = G\n    return None\n", k2),
			fmt.Sprintf("G = %d\n", k2), fmt.Sprintf("G = %d\n", k2+1), []string{"global values"}, "", "", false, false, ""},
		{"body of a function the target calls", fmt.Sprintf("def h():\n    return %d\n"+reasonTarget+"def t():\n    v = h()\n    return None\n", k3),
			fmt.Sprintf("    return %d\n", k3), fmt.Sprintf("    return %d\n", k3+1), []string{"global values"}, "", "", false, false, ""},
		{"default parameter value of the target", fmt.Sprintf(reasonTarget+"def t(self, y=%d):\n    v = y\n    return None\n", k4),
			fmt.Sprintf("def t(self, y=%d):\n", k4), fmt.Sprintf("def t(self, y=%d):\n", k4+1), []string{"default parameter values"}, "", "", false, false, ""},
		{"free variable of the target", fmt.Sprintf("def mk(k):\n    def t():\n        v = k\n        return None\n    return t\ntarget(name=\"t\", function=mk(%d), default=True)\n", k5),
			fmt.Sprintf("function=mk(%d)", k5), fmt.Sprintf("function=mk(%d)", k5+1), []string{"free variables"}, "", "", false, false, ""},
		{"signature of the target", reasonTarget + "def t(self):\n    v = 1\n    return None\n",
			"def t(self):\n", "def t(this):\n", []string{"parameters"}, "", "", false, false, ""},
		{"the target gains *args", reasonTarget + "def t(self):\n    v = 1\n    return None\n",
			"def t(self):\n", "def t(self, *rest):\n", []string{"parameters", "code"}, "", "", false, false, ""},
		{"constant of a function nested in the target", fmt.Sprintf(reasonTarget+"def t():\n    def inner():\n        return %d\n    v = inner()\n    return None\n", k6),
			fmt.Sprintf("        return %d\n", k6), fmt.Sprintf("        return %d\n", k6+1), []string{"function values"}, "", "", false, false, ""},
		{"operator in the target's body", fmt.Sprintf(reasonTarget+"def t():\n    a = %d\n    v = a + a\n    return None\n", k7),
			"    v = a + a\n", "    v = a - a\n", []string{"code"}, "", "", false, false, ""},
		{"predeclared value and universal builtin together", fmt.Sprintf(reasonTarget+"def t():\n    v = [%s, %s]\n    return None\n", pre[0], uni[0]),
			fmt.Sprintf("    v = [%s, %s]\n", pre[0], uni[0]), fmt.Sprintf("    v = [%s, %s]\n", pre[1], uni[1]), []string{"names", "predeclared values", "universal values"}, "", "", false, false, ""},
		{"constant and global together", fmt.Sprintf("G = %d\n"+reasonTarget+"def t():\n    v = [G, %d]\n    return None\n", k2, k1),
			fmt.Sprintf("G = %d\n"+reasonTarget+"def t():\n    v = [G, %d]\n", k2, k1), fmt.Sprintf("G = %d\n"+reasonTarget+"def t():\n    v = [G, %d]\n", k2+1, k1+1),
			[]string{"constant values", "global values"}, "", "", false, false, ""},
	}
	// the same kinds of edit TOGETHER WITH another ground for a rebuild: the reason still names the parts that differ
	dep := func(tbody string) string {
		return fmt.Sprintf("@target()\ndef d():\n    w = %d\n    return None\n@target(default=True, deps=[d])\n%s", k1+5, tbody)
	}
	tConst := fmt.Sprintf("def t():\n    v = %d\n    return None\n", k1)
	tGlobal := "def t():\n    v = G\n    return None\n"
	combined := []reasonCase{
		{Name: "constant edit, rebuilt with Always", Build: reasonTarget + tConst, Old: fmt.Sprintf("    v = %d\n", k1), New: fmt.Sprintf("    v = %d\n", k1+1),
			Expect: []string{"constant values"}, Always: true},
		{Name: "global edit, rebuilt with Always", Build: fmt.Sprintf("G = %d\n", k2) + reasonTarget + tGlobal, Old: fmt.Sprintf("G = %d\n", k2), New: fmt.Sprintf("G = %d\n", k2+1),
			Expect: []string{"global values"}, Always: true},
		{Name: "no edit, rebuilt with Always", Build: reasonTarget + tConst, Always: true, Text: "always"},
		{Name: "constant edit together with an edit of a dependency", Build: dep(tConst), Old: fmt.Sprintf("    v = %d\n", k1), New: fmt.Sprintf("    v = %d\n", k1+1),
			Old2: fmt.Sprintf("    w = %d\n", k1+5), New2: fmt.Sprintf("    w = %d\n", k1+6), Expect: []string{"constant values"}},
		{Name: "predeclared swap together with an edit of a dependency", Build: dep(fmt.Sprintf("def t():\n    v = [%s]\n    return None\n", pre[0])),
			Old: fmt.Sprintf("    v = [%s]\n", pre[0]), New: fmt.Sprintf("    v = [%s]\n", pre[1]),
			Old2: fmt.Sprintf("    w = %d\n", k1+5), New2: fmt.Sprintf("    w = %d\n", k1+6), Expect: []string{"names", "predeclared values"}},
		{Name: "only a dependency is edited", Build: dep(tConst), Old: fmt.Sprintf("    w = %d\n", k1+5), New: fmt.Sprintf("    w = %d\n", k1+6),
			Text: "out-of-date dependencies: //:d"},
		{Name: "constant edit after an interrupted run", Build: reasonTarget + tConst, Old: fmt.Sprintf("    v = %d\n", k1), New: fmt.Sprintf("    v = %d\n", k1+1),
			Expect: []string{"constant values"}, Marker: true},
		{Name: "signature edit after an interrupted run, rebuilt with Always", Build: reasonTarget + "def t(self):\n    v = 1\n    return None\n",
			Old: "def t(self):\n", New: "def t(this):\n", Expect: []string{"parameters"}, Marker: true, Always: true},
		{Name: "no edit after an interrupted run", Build: reasonTarget + tConst, Marker: true, Text: "failed during last run"},
	}
	return append(base, combined...)
}

var reasonKeys = []string{"names", "constant values", "predeclared values", "universal values", "function values", "global values",
	"default parameter values", "free variables", "parameters", "code"}

// namedParts reads "a changed" / "a and b changed" / "a, b, and c changed"
func namedParts(reason string) ([]string, bool) {
	if !strings.HasSuffix(reason, " changed") {
		return nil, false
	}
	body := strings.TrimSuffix(reason, " changed")
	body = strings.ReplaceAll(body, ", and ", ", ")
	body = strings.ReplaceAll(body, " and ", ", ")
	var out []string
	for _, p := range strings.Split(body, ", ") {
		ok := false
		for _, k := range reasonKeys {
			if p == k {
				ok = true
			}
		}
		if !ok {
			return nil, false
		}
		out = append(out, p)
	}
	sort.Strings(out)
	return out, true
}

func reasonMode(seed uint64, tier, scratch string) {
	r := &rng{seed ^ 0x5eed}
	rounds := 1
	if tier == "thorough" {
		rounds = 8
	}
	var cases []reasonCase
	for i := 0; i < rounds; i++ {
		cases = append(cases, reasonCases(r)...)
	}
	if casesOverride != nil {
		cases = casesOverride
	}
	timeout := 60 * time.Second
	var wg sync.WaitGroup
	sem := make(chan struct{}, 8)
	for i := range cases {
		wg.Add(1)
		sem <- struct{}{}
		go func(i int) {
			defer wg.Done()
			defer func() { <-sem }()
			cs := cases[i]
			dir := filepath.Join(scratch, fmt.Sprintf("reason%d", i))
			os.RemoveAll(dir)
			defer os.RemoveAll(dir)
			files := map[string]string{"dawn.toml": "name = \"p\"\n", "BUILD.dawn": cs.Build}
			if (cs.Old != "" && strings.Count(cs.Build, cs.Old) != 1) || (cs.Old2 != "" && strings.Count(cs.Build, cs.Old2) != 1) {
				panic("reason case " + cs.Name + ": edit does not apply exactly once")
			}
			writeFiles(dir, files)
			count("reason_cases", 1)
			b0 := runChild(dir, "build", "fwd", false, false, nil, timeout)
			edited := cs.Build
			if cs.Old != "" {
				edited = strings.Replace(edited, cs.Old, cs.New, 1)
			}
			if cs.Old2 != "" {
				edited = strings.Replace(edited, cs.Old2, cs.New2, 1)
			}
			os.WriteFile(filepath.Join(dir, "BUILD.dawn"), []byte(edited), 0644)
			if cs.Marker {
				// what a run leaves that was interrupted after `inProgress.Rerun = true` was saved and before the result was:
				// the record of the last successful run with the marker set
				rec := filepath.Join(dir, ".dawn", "build", "targets", "%2Ft")
				if raw, err := os.ReadFile(rec); err == nil {
					var m map[string]any
					if json.Unmarshal(raw, &m) == nil {
						m["rerun"] = true
						nb, _ := json.Marshal(m)
						os.WriteFile(rec, nb, 0644)
					}
				}
			}
			mode2 := "build"
			if cs.Always {
				mode2 = "build-always"
			}
			b1 := runChild(dir, mode2, "fwd", false, false, nil, timeout)
			count("child_runs", 2)
			if b0.status == "ok" && b0.loadErr == "" && b1.status != "ok" && b1.variant != "" {
				// the second build died after loading: no reason at all
				b, _ := json.Marshal(map[string]any{"kind": "wrong-reason", "feature": cs.Name, "key": "wrong-reason:" + cs.Name, "target": "//:t",
					"detail": fmt.Sprintf("the build after the edit (%s) dies instead of reporting a reason: %s", cs.Name, b1.detail),
					"input": map[string]any{"stream": "env.reason", "case": cs}})
				outMu.Lock()
				stats["violations"]++
				fmt.Fprintf(out, "V\t%s\n", b)
				outMu.Unlock()
				hist("reason_outcome", "crash")
				return
			}
			if b0.status != "ok" || b1.status != "ok" || b0.loadErr != "" || b1.loadErr != "" {
				count("invalid_programs", 1)
				fmt.Fprintf(os.Stderr, "invalid reason case %q: %s %s %s %s\n", cs.Name, b0.status, b0.loadErr, b1.status, b1.loadErr)
				return
			}
			reason, found := "", false
			for _, ev := range b1.events["//:t"] {
				if ev[0] == "evaluating" {
					reason, found = ev[1], true
				}
			}
			want := append([]string{}, cs.Expect...)
			sort.Strings(want)
			detail := ""
			if !found {
				detail = "the target was not re-executed after the edit"
			} else if cs.Text != "" {
				if reason != cs.Text {
					detail = fmt.Sprintf("reason %q; with no difference in the environment (%s) the reason is %q", reason, cs.Name, cs.Text)
				}
			} else if got, ok := namedParts(reason); !ok {
				detail = fmt.Sprintf("reason %q does not name parts of the environment; the edit changes: %s", reason, strings.Join(want, ", "))
			} else if strings.Join(got, "|") != strings.Join(want, "|") {
				detail = fmt.Sprintf("reason %q names {%s}; the edit (%s) changes exactly {%s}", reason, strings.Join(got, ", "), cs.Name, strings.Join(want, ", "))
			}
			hist("reason_outcome", map[bool]string{true: "agrees", false: "differs"}[detail == ""])
			if detail != "" {
				b, _ := json.Marshal(map[string]any{"kind": "wrong-reason", "feature": cs.Name, "key": "wrong-reason:" + cs.Name, "target": "//:t",
					"detail": detail, "input": map[string]any{"stream": "env.reason", "case": cs}})
				outMu.Lock()
				stats["violations"]++
				fmt.Fprintf(out, "V\t%s\n", b)
				outMu.Unlock()
			}
		}(i)
	}
	wg.Wait()
	if casesOverride == nil {
		nw := 4
		if tier == "thorough" {
			nw = 40
		}
		for i, wc := range watchCases(r, nw) {
			judgeWatch(wc, filepath.Join(scratch, fmt.Sprintf("watch%d", i)))
		}
	}
}

// ---- the same table in ONE long-lived process (watch mode): Load once, then per round: edit, Reload, Run.
// The reason of round i must name exactly the parts changed by the edit of round i — nothing kept across Reload
// (a decoded old environment, a fingerprint) may stand in for what the previous round recorded.

type watchEdit struct {
	What   string   `json:"what"`
	File   string   `json:"file"`
	Old    string   `json:"old"`
	New    string   `json:"new"`
	Expect []string `json:"expect"` // empty: nothing may execute
}

type watchCase struct {
	Name   string      `json:"name"`
	Build  string      `json:"build"`
	Rounds []watchEdit `json:"rounds"`
}

func watchCases(r *rng, n int) []watchCase {
	var out []watchCase
	for i := 0; i < n; i++ {
		k := 42000 + 10*r.below(500)
		pre := [][2]string{{"sh", "os"}, {"os", "json"}, {"glob", "path"}}[r.below(3)]
		uni := [][2]string{{"len", "dir"}, {"str", "repr"}, {"min", "max"}}[r.below(3)]
		build := fmt.Sprintf("G = %d\ndef h():\n    return %d\n"+reasonTarget+"def t(self, y=%d):\n    v = [%d, G, h(), %s, %s, y]\n    return None\n",
			k+2, k+3, k+4, k+1, pre[0], uni[0])
		all := []watchEdit{
			{"constant in the target's body", "BUILD.dawn", fmt.Sprintf("    v = [%d, G,", k+1), fmt.Sprintf("    v = [%d, G,", k+6), []string{"constant values"}},
			{"global the target refers to", "BUILD.dawn", fmt.Sprintf("G = %d\n", k+2), fmt.Sprintf("G = %d\n", k+7), []string{"global values"}},
			{"body of a function the target calls", "BUILD.dawn", fmt.Sprintf("    return %d\n", k+3), fmt.Sprintf("    return %d\n", k+8), []string{"global values"}},
			{"default parameter value of the target", "BUILD.dawn", fmt.Sprintf("y=%d):", k+4), fmt.Sprintf("y=%d):", k+9), []string{"default parameter values"}},
			{"predeclared value the target refers to", "BUILD.dawn", fmt.Sprintf("h(), %s,", pre[0]), fmt.Sprintf("h(), %s,", pre[1]), []string{"names", "predeclared values"}},
			{"universal builtin the target refers to", "BUILD.dawn", fmt.Sprintf(", %s, y]", uni[0]), fmt.Sprintf(", %s, y]", uni[1]), []string{"names", "universal values"}},
			{"the target's parameter is renamed", "BUILD.dawn", "def t(self, y=", "def t(this, y=", []string{"parameters"}},
		}
		// a seeded order, 2 or 3 edits, and a comment-only round somewhere
		for j := len(all) - 1; j > 0; j-- {
			x := r.below(j + 1)
			all[j], all[x] = all[x], all[j]
		}
		rounds := append([]watchEdit{}, all[:2+r.below(2)]...)
		comment := watchEdit{"a comment is added", "BUILD.dawn", "def h():\n", "# a comment\ndef h():\n", nil}
		at := r.below(len(rounds) + 1)
		rounds = append(rounds[:at], append([]watchEdit{comment}, rounds[at:]...)...)
		out = append(out, watchCase{Name: fmt.Sprintf("watch-%d", i), Build: build, Rounds: rounds})
	}
	return out
}

func watchViolation(wc watchCase, round int, detail string) {
	b, _ := json.Marshal(map[string]any{"kind": "wrong-reason", "feature": "watch mode", "key": "wrong-reason:watch", "target": "//:t",
		"detail": detail, "input": map[string]any{"stream": "env.reason", "watch": wc, "round": round}})
	outMu.Lock()
	stats["violations"]++
	fmt.Fprintf(out, "V\t%s\n", b)
	outMu.Unlock()
}

func judgeWatch(wc watchCase, dir string) {
	os.RemoveAll(dir)
	defer os.RemoveAll(dir)
	writeFiles(dir, map[string]string{"dawn.toml": "name = \"p\"\n", "BUILD.dawn": wc.Build})
	script := filepath.Join(dir, "watch-script.json")
	sb, _ := json.Marshal(wc.Rounds)
	os.WriteFile(script, sb, 0644)
	w := runChild(dir, "watch:"+script, "fwd", false, false, nil, 60*time.Second)
	count("child_runs", 1)
	count("watch_cases", 1)
	if w.status != "ok" || w.loadErr != "" {
		if w.variant != "" {
			watchViolation(wc, 0, "one long-lived process (Load, then edit / Reload / Run): the process dies: "+w.detail)
			return
		}
		count("invalid_programs", 1)
		fmt.Fprintf(os.Stderr, "invalid watch case: %s %s %s\n", w.status, w.loadErr, w.detail)
		return
	}
	for i, e := range wc.Rounds {
		if i+1 >= len(w.rounds) {
			count("invalid_programs", 1)
			return
		}
		evs := w.rounds[i+1]
		if _, bad := evs["-"]; bad {
			count("invalid_programs", 1)
			fmt.Fprintf(os.Stderr, "invalid watch case: edit %d (%s) does not apply\n", i+1, e.What)
			return
		}
		count("watch_rounds", 1)
		reason, ran := "", false
		for _, ev := range evs["//:t"] {
			if ev[0] == "evaluating" {
				reason, ran = ev[1], true
			}
			if ev[0] == "reload-error" || ev[0] == "failed" {
				watchViolation(wc, i+1, fmt.Sprintf("round %d (%s): %s %s", i+1, e.What, ev[0], ev[1]))
				return
			}
		}
		want := append([]string{}, e.Expect...)
		sort.Strings(want)
		switch {
		case len(want) == 0 && ran:
			watchViolation(wc, i+1, fmt.Sprintf("one long-lived process, round %d: after an edit that changes no environment (%s) and Reload the target re-executes with reason %q", i+1, e.What, reason))
		case len(want) == 0:
		case !ran:
			watchViolation(wc, i+1, fmt.Sprintf("one long-lived process, round %d: after the edit (%s) and Reload the target is not re-executed", i+1, e.What))
		default:
			got, ok := namedParts(reason)
			if !ok || strings.Join(got, "|") != strings.Join(want, "|") {
				watchViolation(wc, i+1, fmt.Sprintf("one long-lived process, round %d: reason %q; the edit of THIS round (%s) changes exactly {%s}", i+1, reason, e.What, strings.Join(want, ", ")))
			}
		}
		hist("reason_outcome", "watch-round")
	}
}

// reasonReplay judges one stored case again
func reasonReplay(raw string, scratch string) {
	var in struct {
		Case  reasonCase `json:"case"`
		Watch *watchCase `json:"watch"`
	}
	if err := json.Unmarshal([]byte(raw), &in); err != nil {
		fmt.Fprintln(os.Stderr, err)
		os.Exit(2)
	}
	if in.Watch != nil {
		judgeWatch(*in.Watch, filepath.Join(scratch, "watch-replay"))
		return
	}
	// same procedure as reasonMode, for one case
	saved := in.Case
	casesOverride = []reasonCase{saved}
	reasonMode(1, "replay", scratch)
}

var casesOverride []reasonCase

// Ground-truth judge for the rebuild REASON (property C16: "the rebuild reason shown for a target names exactly the
// parts of its environment that differ"), harness mode `-mode reason`.
//
// Each case is a one-target project and one edit of which we know, from how the Starlark fork lays out a function's
// environment (FunctionCode.ModuleEnv: names, constants, predeclared, universals, functions, then globals;
// Function.Env: default parameter values, free variables; function.go adds the signature as "parameters" and the
// bytecode as "code") and from functionEnvKeys, WHICH part of the target function's environment it changes
// (`names` holds every name the code mentions: attribute names and the names of predeclared / universal values). The
// project is built, edited and built again in child processes; the reason of the TargetEvaluating event of the
// second build must name exactly those parts. The table is not derived from envUnpickler: a decoder that files a part
// under another key stays self-consistent (old and new are decoded alike) and only ground truth shows it.
package main

import (
	"encoding/json"
	"fmt"
	"os"
	"path/filepath"
	"sort"
	"strings"
	"sync"
	"time"
)

type reasonCase struct {
	Name   string   `json:"name"`
	Build  string   `json:"build"` // BUILD.dawn
	Old    string   `json:"old"`
	New    string   `json:"new"`
	Expect []string `json:"expect"` // functionEnvKeys that must be named, and no others
}

const reasonTarget = "@target(default=True)\n"

func reasonCases(r *rng) []reasonCase {
	c := func(i int) int { return 41000 + 10*r.below(800) + i }
	k1, k2, k3, k4, k5, k6, k7 := c(1), c(2), c(3), c(4), c(5), c(6), c(7)
	pre := [][2]string{{"sh", "os"}, {"os", "json"}, {"host", "package"}, {"glob", "path"}, {"Cache", "fail"}}[r.below(5)]
	uni := [][2]string{{"len", "dir"}, {"str", "repr"}, {"sorted", "reversed"}, {"min", "max"}, {"any", "all"}}[r.below(5)]
	attr := [][2]string{{"upper", "lower"}, {"strip", "title"}, {"keys", "values"}}[r.below(3)]
	recv := "\"abc\""
	if attr[0] == "keys" {
		recv = "{}"
	}
	return []reasonCase{
		{"constant in the target's body", fmt.Sprintf(reasonTarget+"def t():\n    v = %d\n    return None\n", k1),
			fmt.Sprintf("    v = %d\n", k1), fmt.Sprintf("    v = %d\n", k1+1), []string{"constant values"}},
		{"string constant in the target's body", reasonTarget + "def t():\n    v = \"abc\"\n    return None\n",
			"    v = \"abc\"\n", "    v = \"abd\"\n", []string{"constant values"}},
		{"predeclared value the target refers to", fmt.Sprintf(reasonTarget+"def t():\n    v = [%s]\n    return None\n", pre[0]),
			fmt.Sprintf("    v = [%s]\n", pre[0]), fmt.Sprintf("    v = [%s]\n", pre[1]), []string{"names", "predeclared values"}},
		{"universal builtin the target refers to", fmt.Sprintf(reasonTarget+"def t():\n    v = [%s]\n    return None\n", uni[0]),
			fmt.Sprintf("    v = [%s]\n", uni[0]), fmt.Sprintf("    v = [%s]\n", uni[1]), []string{"names", "universal values"}},
		{"attribute name the target uses", fmt.Sprintf(reasonTarget+"def t():\n    x = %s\n    v = x.%s\n    return None\n", recv, attr[0]),
			fmt.Sprintf("    v = x.%s\n", attr[0]), fmt.Sprintf("    v = x.%s\n", attr[1]), []string{"names"}},
		{"global the target refers to", fmt.Sprintf("G = %d\n"+reasonTarget+"def t():\n    v = G\n    return None\n", k2),
			fmt.Sprintf("G = %d\n", k2), fmt.Sprintf("G = %d\n", k2+1), []string{"global values"}},
		{"body of a function the target calls", fmt.Sprintf("def h():\n    return %d\n"+reasonTarget+"def t():\n    v = h()\n    return None\n", k3),
			fmt.Sprintf("    return %d\n", k3), fmt.Sprintf("    return %d\n", k3+1), []string{"global values"}},
		{"default parameter value of the target", fmt.Sprintf(reasonTarget+"def t(self, y=%d):\n    v = y\n    return None\n", k4),
			fmt.Sprintf("def t(self, y=%d):\n", k4), fmt.Sprintf("def t(self, y=%d):\n", k4+1), []string{"default parameter values"}},
		{"free variable of the target", fmt.Sprintf("def mk(k):\n    def t():\n        v = k\n        return None\n    return t\ntarget(name=\"t\", function=mk(%d), default=True)\n", k5),
			fmt.Sprintf("function=mk(%d)", k5), fmt.Sprintf("function=mk(%d)", k5+1), []string{"free variables"}},
		{"signature of the target", reasonTarget + "def t(self):\n    v = 1\n    return None\n",
			"def t(self):\n", "def t(this):\n", []string{"parameters"}},
		{"the target gains *args", reasonTarget + "def t(self):\n    v = 1\n    return None\n",
			"def t(self):\n", "def t(self, *rest):\n", []string{"parameters", "code"}},
		{"constant of a function nested in the target", fmt.Sprintf(reasonTarget+"def t():\n    def inner():\n        return %d\n    v = inner()\n    return None\n", k6),
			fmt.Sprintf("        return %d\n", k6), fmt.Sprintf("        return %d\n", k6+1), []string{"function values"}},
		{"operator in the target's body", fmt.Sprintf(reasonTarget+"def t():\n    a = %d\n    v = a + a\n    return None\n", k7),
			"    v = a + a\n", "    v = a - a\n", []string{"code"}},
		{"predeclared value and universal builtin together", fmt.Sprintf(reasonTarget+"def t():\n    v = [%s, %s]\n    return None\n", pre[0], uni[0]),
			fmt.Sprintf("    v = [%s, %s]\n", pre[0], uni[0]), fmt.Sprintf("    v = [%s, %s]\n", pre[1], uni[1]), []string{"names", "predeclared values", "universal values"}},
		{"constant and global together", fmt.Sprintf("G = %d\n"+reasonTarget+"def t():\n    v = [G, %d]\n    return None\n", k2, k1),
			fmt.Sprintf("G = %d\n"+reasonTarget+"def t():\n    v = [G, %d]\n", k2, k1), fmt.Sprintf("G = %d\n"+reasonTarget+"def t():\n    v = [G, %d]\n", k2+1, k1+1),
			[]string{"constant values", "global values"}},
	}
}

var reasonKeys = []string{"names", "constant values", "predeclared values", "universal values", "function values", "global values",
	"default parameter values", "free variables", "parameters", "code"}

// namedParts reads "a changed" / "a and b changed" / "a, b, and c changed"
func namedParts(reason string) ([]string, bool) {
	if !strings.HasSuffix(reason, " changed") {
		return nil, false
	}
	body := strings.TrimSuffix(reason, " changed")
	body = strings.ReplaceAll(body, ", and ", ", ")
	body = strings.ReplaceAll(body, " and ", ", ")
	var out []string
	for _, p := range strings.Split(body, ", ") {
		ok := false
		for _, k := range reasonKeys {
			if p == k {
				ok = true
			}
		}
		if !ok {
			return nil, false
		}
		out = append(out, p)
	}
	sort.Strings(out)
	return out, true
}

func reasonMode(seed uint64, tier, scratch string) {
	r := &rng{seed ^ 0x5eed}
	rounds := 1
	if tier == "thorough" {
		rounds = 8
	}
	var cases []reasonCase
	for i := 0; i < rounds; i++ {
		cases = append(cases, reasonCases(r)...)
	}
	if casesOverride != nil {
		cases = casesOverride
	}
	timeout := 60 * time.Second
	var wg sync.WaitGroup
	sem := make(chan struct{}, 8)
	for i := range cases {
		wg.Add(1)
		sem <- struct{}{}
		go func(i int) {
			defer wg.Done()
			defer func() { <-sem }()
			cs := cases[i]
			dir := filepath.Join(scratch, fmt.Sprintf("reason%d", i))
			os.RemoveAll(dir)
			defer os.RemoveAll(dir)
			files := map[string]string{"dawn.toml": "name = \"p\"\n", "BUILD.dawn": cs.Build}
			if strings.Count(cs.Build, cs.Old) != 1 {
				panic("reason case " + cs.Name + ": edit does not apply exactly once")
			}
			writeFiles(dir, files)
			count("reason_cases", 1)
			b0 := runChild(dir, "build", "fwd", false, false, nil, timeout)
			os.WriteFile(filepath.Join(dir, "BUILD.dawn"), []byte(strings.Replace(cs.Build, cs.Old, cs.New, 1)), 0644)
			b1 := runChild(dir, "build", "fwd", false, false, nil, timeout)
			count("child_runs", 2)
			if b0.status != "ok" || b1.status != "ok" || b0.loadErr != "" || b1.loadErr != "" {
				count("invalid_programs", 1)
				fmt.Fprintf(os.Stderr, "invalid reason case %q: %s %s %s %s\n", cs.Name, b0.status, b0.loadErr, b1.status, b1.loadErr)
				return
			}
			reason, found := "", false
			for _, ev := range b1.events["//:t"] {
				if ev[0] == "evaluating" {
					reason, found = ev[1], true
				}
			}
			want := append([]string{}, cs.Expect...)
			sort.Strings(want)
			detail := ""
			if !found {
				detail = "the target was not re-executed after the edit"
			} else if got, ok := namedParts(reason); !ok {
				detail = fmt.Sprintf("reason %q does not name parts of the environment; the edit changes: %s", reason, strings.Join(want, ", "))
			} else if strings.Join(got, "|") != strings.Join(want, "|") {
				detail = fmt.Sprintf("reason %q names {%s}; the edit (%s) changes exactly {%s}", reason, strings.Join(got, ", "), cs.Name, strings.Join(want, ", "))
			}
			hist("reason_outcome", map[bool]string{true: "agrees", false: "differs"}[detail == ""])
			if detail != "" {
				b, _ := json.Marshal(map[string]any{"kind": "wrong-reason", "feature": cs.Name, "key": "wrong-reason:" + cs.Name, "target": "//:t",
					"detail": detail, "input": map[string]any{"stream": "env.reason", "case": cs}})
				outMu.Lock()
				stats["violations"]++
				fmt.Fprintf(out, "V\t%s\n", b)
				outMu.Unlock()
			}
		}(i)
	}
	wg.Wait()
}

// reasonReplay judges one stored case again
func reasonReplay(raw string, scratch string) {
	var in struct {
		Case reasonCase `json:"case"`
	}
	if err := json.Unmarshal([]byte(raw), &in); err != nil {
		fmt.Fprintln(os.Stderr, err)
		os.Exit(2)
	}
	// same procedure as reasonMode, for one case
	saved := in.Case
	casesOverride = []reasonCase{saved}
	reasonMode(1, "replay", scratch)
}

var casesOverride []reasonCase

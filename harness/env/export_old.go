// Variant for the tree as found: stateless envPickler, functionEnv returns only the decoded environment.
// See export_common.go.
package dawn

import (
	"bytes"

	"github.com/pgavlin/dawn/pickle"
	"go.starlark.net/starlark"
)

const VerifVariant = "original"

// VerifFunctionEnv runs the real functionEnv and returns the decoded environment and the encoding
// (computed a second time exactly as functionEnv and evaluate do).
func VerifFunctionEnv(fn starlark.Callable) (starlark.Value, []byte, error) {
	env, err := functionEnv(fn)
	if err != nil {
		return nil, nil, err
	}
	var buf bytes.Buffer
	if err := pickle.NewEncoder(&buf, pickle.PicklerFunc(envPickler)).Encode(fn); err != nil {
		return nil, nil, err
	}
	return env, buf.Bytes(), nil
}

// VerifDecodeEnv decodes a stamp the way (*function).load does.
func VerifDecodeEnv(raw []byte) (starlark.Value, error) {
	return pickle.NewDecoder(bytes.NewReader(raw), pickle.UnpicklerFunc(envUnpickler)).Decode()
}

// VerifDiffEnv runs the real diffEnv on the given old and new environments.
func VerifDiffEnv(oldEnv starlark.Value, oldData string, newEnv starlark.Value, newData string) (bool, string, error) {
	f := &function{oldEnv: oldEnv, newEnv: newEnv}
	eq, reason, _, err := f.diffEnv()
	return eq, reason, err
}

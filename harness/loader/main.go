// Trace-refinement + judge harness for C06 (module loading). Built INTO the repo's module with
// `go build -overlay -tags verif` as package github.com/pgavlin/dawn/cmd/verif_loader; not part of /repo.
//
// Load graphs are generated from -seed (chains, diamonds, helpers shared by several packages that load further
// modules, 2- and n-cycles, self-loads, random graphs; 1-4 packages), written out as real .dawn trees and loaded
// with dawn.Load through the library API. The verifPoint call sites in module.go / project.go report to this
// file's hook, which either
//   - serialises the per-package loader goroutines (controlled mode): a goroutine parks at every point that
//     precedes a mutex acquisition (outside the critical sections), announces "about to block" before cond.Wait and
//     is accounted for as running again when the waker announces the wake-up (before Broadcast, mutex still held);
//     the controller tracks which module mutexes are held across scheduling points, resumes exactly one goroutine
//     whose next lock operation cannot block, and declares DEADLOCK when no goroutine can be resumed and some has
//     not returned; schedules come from the Lean model (-model-schedules), from a PCT-style prioritised random
//     scheduler and from a uniform random scheduler, all derived from -seed, and replay deterministically; or
//   - only logs (free-running stress mode; `slow()` calls in the generated modules sleep): events are logged from
//     inside the critical sections, so the log is a linearisation; a Load that does not return is a hang.
//
// Every exploration batch runs in a child process under a watchdog (a deadlock leaks goroutines).
//
// Output, one record per line, tab separated:
//
//	C <stream> <driver input> <Go's canonical answer>     trace for step-by-step validation against the Lean model
//	V <json>                                             violation found by the judge (contains "input")
//	S <json>                                             statistics
package main

import (
	"bufio"
	"bytes"
	"context"
	"encoding/json"
	"flag"
	"fmt"
	"os"
	"os/exec"
	"path/filepath"
	"runtime"
	"sort"
	"strconv"
	"strings"
	"sync"
	"time"

	"github.com/mitchellh/go-homedir"
	dawn "github.com/pgavlin/dawn"
	"github.com/pgavlin/dawn/diff"
	"github.com/pgavlin/dawn/internal/project"
	"github.com/pgavlin/dawn/label"
	"go.starlark.net/starlark"
)

// ---------------------------------------------------------------- PRNG (all randomness derives from -seed)
type rng struct{ s uint64 }

func (r *rng) next() uint64 {
	r.s += 0x9E3779B97F4A7C15
	z := r.s
	z = (z ^ (z >> 30)) * 0xBF58476D1CE4E5B9
	z = (z ^ (z >> 27)) * 0x94D049BB133111EB
	return z ^ (z >> 31)
}
func (r *rng) below(n int) int { return int(r.next() % uint64(n)) }

// ---------------------------------------------------------------- load graphs
// modules 0..len(roots)-1 are the BUILD.dawn files of packages p0, p1, … (one loader goroutine each);
// the others are helper modules //lib:m<i>.dawn (no BUILD.dawn in lib, so no goroutine of their own)
type graph struct {
	roots []int
	loads [][]int
	// modules of a project that cannot be fetched (`example.com/x//lib:m<i>.dawn`): their environment cannot be set
	// up, so they fail before executing anything; they have no file and load nothing
	broken []int
	// those of `broken` that are local files with a syntax error instead (they fail in ExecFile, after the environment
	// was set up; to the loader - and to the model - that is the same: executed once, nothing loaded, finished with an error)
	syntax []int
	// modules of the REQUIRED project example.com/dep (present in the module cache under $HOME): dep[i] = [d, l] means module d
	// is dep//lib:m<l>.dawn - the same package and file name as the local helper l, other contents. To the loader - and
	// to the model - it is simply another module: a module's identity is its full label, project included.
	dep [][2]int
}

func (g *graph) mirrorOf(m int) (int, bool) {
	for _, d := range g.dep {
		if d[0] == m {
			return d[1], true
		}
	}
	return 0, false
}

const depProject = "example.com/dep"
const depVersion = "v1.0.0"

func (g *graph) isSyntax(m int) bool {
	for _, b := range g.syntax {
		if b == m {
			return true
		}
	}
	return false
}

// the graph as the Lean driver reads it (without the syntax-error marker)
func (g *graph) modelString() string {
	h := *g
	h.syntax = nil
	h.dep = nil
	return h.String()
}

func (g *graph) clone() *graph {
	h := &graph{roots: append([]int{}, g.roots...), broken: append([]int{}, g.broken...), syntax: append([]int{}, g.syntax...),
		dep: append([][2]int{}, g.dep...)}
	for _, l := range g.loads {
		h.loads = append(h.loads, append([]int{}, l...))
	}
	return h
}

func (g *graph) isBroken(m int) bool {
	for _, b := range g.broken {
		if b == m {
			return true
		}
	}
	return false
}

func (g *graph) String() string {
	var rs, ls []string
	for _, r := range g.roots {
		rs = append(rs, strconv.Itoa(r))
	}
	for _, l := range g.loads {
		if len(l) == 0 {
			ls = append(ls, "-")
			continue
		}
		var xs []string
		for _, d := range l {
			xs = append(xs, strconv.Itoa(d))
		}
		ls = append(ls, strings.Join(xs, ","))
	}
	out := strings.Join(rs, ",") + "/" + strings.Join(ls, ";")
	if len(g.dep) > 0 {
		// roots/loads/broken/syntax/dep with `-` for the empty lists
		lst := func(xs []int) string {
			if len(xs) == 0 {
				return "-"
			}
			var ss []string
			for _, x := range xs {
				ss = append(ss, strconv.Itoa(x))
			}
			return strings.Join(ss, ",")
		}
		var ds []string
		for _, d := range g.dep {
			ds = append(ds, fmt.Sprintf("%d:%d", d[0], d[1]))
		}
		return out + "/" + lst(g.broken) + "/" + lst(g.syntax) + "/" + strings.Join(ds, ",")
	}
	if len(g.broken) > 0 {
		var bs []string
		for _, b := range g.broken {
			bs = append(bs, strconv.Itoa(b))
		}
		out += "/" + strings.Join(bs, ",")
		if len(g.syntax) > 0 {
			var ss []string
			for _, b := range g.syntax {
				ss = append(ss, strconv.Itoa(b))
			}
			out += "/" + strings.Join(ss, ",")
		}
	}
	return out
}

func parseGraph(s string) (*graph, error) {
	parts := strings.Split(s, "/")
	if len(parts) < 2 || len(parts) > 5 {
		return nil, fmt.Errorf("bad graph %q", s)
	}
	nums := func(s string) ([]int, error) {
		if s == "-" || s == "" {
			return nil, nil
		}
		var out []int
		for _, x := range strings.Split(s, ",") {
			n, err := strconv.Atoi(x)
			if err != nil {
				return nil, err
			}
			out = append(out, n)
		}
		return out, nil
	}
	g := &graph{}
	var err error
	if g.roots, err = nums(parts[0]); err != nil {
		return nil, err
	}
	for _, l := range strings.Split(parts[1], ";") {
		xs, err := nums(l)
		if err != nil {
			return nil, err
		}
		g.loads = append(g.loads, xs)
	}
	if len(parts) >= 3 {
		if g.broken, err = nums(parts[2]); err != nil {
			return nil, err
		}
		if len(parts) >= 4 {
			if g.syntax, err = nums(parts[3]); err != nil {
				return nil, err
			}
		}
		if len(parts) == 5 {
			for _, dl := range strings.Split(parts[4], ",") {
				var d, l int
				if _, err := fmt.Sscanf(dl, "%d:%d", &d, &l); err != nil {
					return nil, fmt.Errorf("bad dep entry %q", dl)
				}
				g.dep = append(g.dep, [2]int{d, l})
			}
		}
		for _, b := range g.broken {
			if b < 0 || b >= len(g.loads) || len(g.loads[b]) != 0 || (b < len(g.roots) && !g.isSyntax(b)) {
				return nil, fmt.Errorf("broken module %d must be without loads (and a helper unless it is a syntax error)", b)
			}
		}
	}
	for i, r := range g.roots {
		if r != i {
			return nil, fmt.Errorf("roots must be 0..k-1")
		}
	}
	for _, l := range g.loads {
		for _, d := range l {
			if d < 0 || d >= len(g.loads) {
				return nil, fmt.Errorf("load target %d out of range", d)
			}
		}
	}
	return g, nil
}

func (g *graph) pkg(m int) string {
	if m < len(g.roots) {
		return fmt.Sprintf("//p%d", m)
	}
	return "//lib"
}

func (g *graph) file(m int) string {
	if m < len(g.roots) {
		return "BUILD.dawn"
	}
	if l, ok := g.mirrorOf(m); ok {
		return fmt.Sprintf("m%d.dawn", l)
	}
	return fmt.Sprintf("m%d.dawn", m)
}

func (g *graph) label(m int) string {
	l := &label.Label{Kind: "module", Package: g.pkg(m), Name: g.file(m)}
	if g.isBroken(m) && !g.isSyntax(m) {
		l.Project = "example.com/x"
	}
	if _, ok := g.mirrorOf(m); ok {
		l.Project = depProject
	}
	return l.String()
}

// reachable modules and whether the reachable part has a cycle (the judge's own oracle)
func (g *graph) brokenReachable() bool {
	reach, _ := g.analyse()
	for _, b := range g.broken {
		if reach[b] {
			return true
		}
	}
	return false
}

func (g *graph) analyse() (reach []bool, cyclic bool) {
	reach = make([]bool, len(g.loads))
	color := make([]int, len(g.loads))
	var dfs func(m int)
	dfs = func(m int) {
		reach[m] = true
		color[m] = 1
		for _, d := range g.loads[m] {
			if color[d] == 1 {
				cyclic = true
			} else if color[d] == 0 {
				dfs(d)
			}
		}
		color[m] = 2
	}
	for _, r := range g.roots {
		if color[r] == 0 {
			dfs(r)
		}
	}
	return
}

// where the required project lives: $HOME/.dawn/modules/cache/<path>@<version> (internal/mvs Resolver.FetchProject)
func depCacheDir() string {
	return filepath.Join(os.Getenv("HOME"), ".dawn", "modules", "cache", depProject+"@"+depVersion)
}

func (g *graph) write(root string) error {
	os.Remove(filepath.Join(root, ".dawnconfig"))
	os.Remove(filepath.Join(root, "dawn.toml"))
	if len(g.dep) > 0 {
		// the project requires example.com/dep, which is already in the module cache: nothing is dialled
		cfg := &project.Config{Requirements: map[string]project.RequirementConfig{"dep": {Path: depProject, Version: depVersion}}}
		if err := project.WriteConfigFile(filepath.Join(root, "dawn.toml"), cfg); err != nil {
			return err
		}
		cd := depCacheDir()
		os.RemoveAll(cd)
		if err := os.MkdirAll(filepath.Join(cd, "lib"), 0o755); err != nil {
			return err
		}
		if err := project.WriteConfigFile(filepath.Join(cd, "dawn.toml"), &project.Config{Name: "dep"}); err != nil {
			return err
		}
	} else if err := os.WriteFile(filepath.Join(root, ".dawnconfig"), nil, 0o644); err != nil {
		return err
	}
	for m := range g.loads {
		if g.isBroken(m) && !g.isSyntax(m) {
			continue
		}
		var b strings.Builder
		if g.isSyntax(m) {
			b.WriteString("def broken(:\n")
		}
		for i, d := range g.loads[m] {
			ref := g.pkg(d) + ":" + g.file(d)
			_, dIsDep := g.mirrorOf(d)
			_, mIsDep := g.mirrorOf(m)
			if g.isBroken(d) && !g.isSyntax(d) {
				ref = "example.com/x" + ref
			} else if dIsDep && !mIsDep {
				ref = "dep" + ref // through the requirement's alias
			} else if dIsDep && mIsDep {
				ref = ":" + g.file(d) // inside the required project
			} else if g.pkg(d) == g.pkg(m) && (m+i)%2 == 0 {
				ref = ":" + g.file(d) // relative form
			}
			fmt.Fprintf(&b, "load(%q, a%d=\"x%d\")\nslow()\n", ref, i, d)
		}
		if _, isDep := g.mirrorOf(m); isDep {
			// a module of the required project: same package and file name as a local helper, other globals, no targets
			fmt.Fprintf(&b, "x%d = %d\n", m, m)
			if err := os.WriteFile(filepath.Join(depCacheDir(), "lib", g.file(m)), []byte(b.String()), 0o644); err != nil {
				return err
			}
			continue
		}
		fmt.Fprintf(&b, "x%d = %d\n@target(name=\"t%d\")\ndef t%d():\n    pass\nf%d = parse_flag(\"f%d\", default=\"d\")\n", m, m, m, m, m, m)
		dir := filepath.Join(root, g.pkg(m)[2:])
		if err := os.MkdirAll(dir, 0o755); err != nil {
			return err
		}
		if err := os.WriteFile(filepath.Join(dir, g.file(m)), []byte(b.String()), 0o644); err != nil {
			return err
		}
	}
	return nil
}

// ---- generators
func genGraph(r *rng, kind string) *graph {
	k := 1 + r.below(4) // packages
	mk := func(k, n int) *graph {
		g := &graph{loads: make([][]int, n)}
		for i := 0; i < k; i++ {
			g.roots = append(g.roots, i)
		}
		return g
	}
	switch kind {
	case "chain": // p0 -> h1 -> h2 -> …; other packages join the chain somewhere
		n := k + 1 + r.below(4)
		g := mk(k, n)
		for m := k; m < n-1; m++ {
			g.loads[m] = []int{m + 1}
		}
		for i := 0; i < k; i++ {
			g.loads[i] = []int{k + r.below(n-k)}
		}
		return g
	case "diamond":
		n := k + 4
		g := mk(k, n)
		a, b, c, d := k, k+1, k+2, k+3
		g.loads[a] = []int{b, c}
		g.loads[b] = []int{d}
		g.loads[c] = []int{d}
		for i := 0; i < k; i++ {
			g.loads[i] = [][]int{{a}, {b, c}, {c, b}, {a, d}}[r.below(4)]
		}
		return g
	case "shared": // several packages load the same helper, which itself loads further modules (the D4 shape)
		if k < 2 {
			k = 2
		}
		depth := 1 + r.below(3)
		n := k + 1 + depth
		g := mk(k, n)
		for m := k; m < n-1; m++ {
			g.loads[m] = []int{m + 1}
		}
		for i := 0; i < k; i++ {
			g.loads[i] = []int{k}
			if r.below(3) == 0 {
				g.loads[i] = append(g.loads[i], k+1+r.below(depth))
			}
		}
		return g
	case "cycle": // an n-cycle among helpers (n >= 2), entered from the packages at random points
		c := 2 + r.below(4)
		n := k + c
		g := mk(k, n)
		for j := 0; j < c; j++ {
			g.loads[k+j] = []int{k + (j+1)%c}
		}
		for i := 0; i < k; i++ {
			g.loads[i] = []int{k + r.below(c)}
		}
		return g
	case "self":
		n := k + 1 + r.below(2)
		g := mk(k, n)
		g.loads[n-1] = []int{n - 1}
		for i := 0; i < k; i++ {
			g.loads[i] = []int{k + r.below(n-k)}
		}
		if n-k == 2 {
			g.loads[k] = []int{k + 1}
		}
		return g
	case "crossroot": // BUILD files loading each other (a BUILD file is loaded by its own goroutine and by a peer)
		if k < 2 {
			k = 2
		}
		n := k + 1
		g := mk(k, n)
		for i := 0; i < k; i++ {
			g.loads[i] = []int{k}
		}
		g.loads[0] = []int{1, k}
		if r.below(2) == 0 {
			g.loads[k-1] = append(g.loads[k-1], 0) // closes a cycle through the BUILD files when k = 2
		}
		return g
	case "foreign": // several modules load the same module of a project that cannot be fetched
		if k < 2 {
			k = 2
		}
		n := k + 2 + r.below(2)
		g := mk(k, n)
		bad := n - 1
		g.broken = []int{bad}
		for i := 0; i < k; i++ {
			g.loads[i] = []int{bad}
			if r.below(2) == 0 {
				g.loads[i] = []int{k, bad}
			}
		}
		if n-k == 3 {
			g.loads[k] = []int{k + 1}
			g.loads[k+1] = []int{bad}
		} else if r.below(2) == 0 {
			g.loads[k] = []int{bad}
		}
		return g
	case "required": // a module of a required project with the same package and file name as a local helper
		n := k + 2 + r.below(2)
		g := mk(k, n)
		local, dep := k, n-1
		g.dep = [][2]int{{dep, local}}
		if n-k == 3 {
			g.loads[k+1] = []int{dep} // a local helper loads the required project's module
		}
		for i := 0; i < k; i++ {
			switch r.below(4) {
			case 0:
				g.loads[i] = []int{local, dep}
			case 1:
				g.loads[i] = []int{dep, local}
			case 2:
				g.loads[i] = []int{dep}
			default:
				g.loads[i] = []int{local}
				if n-k == 3 {
					g.loads[i] = []int{local, k + 1}
				}
			}
		}
		g.loads[0] = [][]int{{local, dep}, {dep, local}}[r.below(2)]
		return g
	case "dag":
		n := k + 1 + r.below(5)
		g := mk(k, n)
		for m := 0; m < n; m++ {
			lo := m + 1
			if m < k {
				lo = k
			}
			for d := lo; d < n; d++ {
				if r.below(3) == 0 {
					g.loads[m] = append(g.loads[m], d)
				}
			}
			if m < k && len(g.loads[m]) == 0 {
				g.loads[m] = []int{k + r.below(n-k)}
			}
		}
		return g
	default: // "random": any edges among helpers, possibly cyclic, duplicates allowed
		n := k + 1 + r.below(5)
		g := mk(k, n)
		for m := 0; m < n; m++ {
			cnt := r.below(3)
			if m < k {
				cnt = 1 + r.below(2)
			}
			for j := 0; j < cnt; j++ {
				g.loads[m] = append(g.loads[m], k+r.below(n-k))
			}
		}
		return g
	}
}

// set once the Lean model covers modules whose environment cannot be set up (graphs with a third component)
const modelHasBroken = true

// genSequence: a tree that loads, followed by 1-3 edited versions of it for Reload: unchanged, a module file with a
// syntax error (and its repair), a module added, a load removed, a cycle introduced (and removed again)
func genSequence(r *rng) []*graph {
	var base *graph
	for {
		base = genGraph(r, []string{"chain", "diamond", "shared", "dag", "crossroot", "shared"}[r.below(6)])
		if _, cyc := base.analyse(); !cyc && len(base.broken) == 0 {
			break
		}
	}
	seqs := []*graph{base}
	good := base
	breaking := false
	k := 1 + r.below(3)
	for i := 0; i < k; i++ {
		if breaking && r.below(2) == 0 {
			seqs = append(seqs, good.clone()) // the repair
			breaking = false
			continue
		}
		h := good.clone()
		breaking = false
		switch r.below(5) {
		case 0: // unchanged
		case 1: // a syntax error in some module file
			m := r.below(len(h.loads))
			h.loads[m] = nil
			h.broken = append(h.broken, m)
			h.syntax = append(h.syntax, m)
			breaking = true
		case 2: // a new helper, loaded by an existing module
			n := len(h.loads)
			h.loads = append(h.loads, nil)
			x := r.below(n)
			h.loads[x] = append(h.loads[x], n)
		case 3: // a load statement removed
			x := r.below(len(h.loads))
			if len(h.loads[x]) > 0 {
				h.loads[x] = h.loads[x][:len(h.loads[x])-1]
			}
		case 4: // a helper that loads itself
			if len(h.loads) > len(h.roots) {
				x := len(h.roots) + r.below(len(h.loads)-len(h.roots))
				h.loads[x] = append(h.loads[x], x)
				breaking = true
			}
		}
		seqs = append(seqs, h)
		if !breaking {
			good = h
		}
	}
	return seqs
}

func seqString(gs []*graph) string {
	var ss []string
	for _, g := range gs {
		ss = append(ss, g.String())
	}
	return strings.Join(ss, " => ")
}

var kinds = []string{"chain", "diamond", "shared", "cycle", "self", "crossroot", "dag", "random", "shared", "cycle", "foreign", "required"}

// ---------------------------------------------------------------- events (the judge's own count of ModuleLoading)
type events struct {
	mu      sync.Mutex
	loading map[string]int
}

func (e *events) Print(*label.Label, string)                            {}
func (e *events) RequirementLoading(*label.Label, string)               {}
func (e *events) RequirementLoaded(*label.Label, string)                {}
func (e *events) RequirementLoadFailed(*label.Label, string, error)     {}
func (e *events) ModuleLoaded(*label.Label)                             {}
func (e *events) ModuleLoadFailed(*label.Label, error)                  {}
func (e *events) LoadDone(error)                                        {}
func (e *events) TargetUpToDate(*label.Label)                           {}
func (e *events) TargetEvaluating(*label.Label, string, diff.ValueDiff) {}
func (e *events) TargetFailed(*label.Label, error)                      {}
func (e *events) TargetSucceeded(*label.Label, bool)                    {}
func (e *events) RunDone(error)                                         {}
func (e *events) FileChanged(*label.Label)                              {}
func (e *events) ModuleLoading(l *label.Label) {
	e.mu.Lock()
	e.loading[l.String()]++
	e.mu.Unlock()
}

// ---------------------------------------------------------------- controller
func gid() int64 {
	var buf [64]byte
	n := runtime.Stack(buf[:], false)
	f := bytes.Fields(buf[:n])
	id, _ := strconv.ParseInt(string(f[1]), 10, 64)
	return id
}

type lthr struct {
	id     int
	resume chan struct{}
	state  string // new | parked | blocked | running | done
	at     string // parked: the hook name; blocked: "wait"
	mod    int    // the module whose mutex the next operation locks / whose condition it waits for
}

type lrun struct {
	mu          sync.Mutex
	controlled  bool
	g           *graph
	ids         map[string]int // module label -> id
	pkgThread   map[string]int // package path -> thread id
	byGid       map[int64]*lthr
	threads     []*lthr
	msgs        chan *lthr
	outstanding int
	log         []string
	held        map[int]int // module -> thread that holds its mutex across a scheduling point
	hookExecs   map[int]int
	done        map[int]string // module -> "ok" | "cyc" (cyclic-dependency error, own or inherited) | "err" (any other error)
	slowRng     *rng
	slowMax     int
}

var cur *lrun

func (r *lrun) modID(arg any) int {
	info, ok := dawn.VerifModule(arg)
	if !ok {
		return -1
	}
	if id, ok := r.ids[info.Label]; ok {
		return id
	}
	return -1
}

func (r *lrun) emit(t *lthr, format string, a ...any) {
	// caller holds r.mu
	r.log = append(r.log, fmt.Sprintf("%d.", t.id)+fmt.Sprintf(format, a...))
}

func (r *lrun) park(t *lthr, at string, mod int) {
	if !r.controlled {
		return
	}
	r.mu.Lock()
	if at != "module.getLoading" {
		// any mutex this goroutine held has been released by now (wait's deferred Unlock ran); the one exception
		// is getLoading called from inside wait's walk, where m.m is still held
		for m, h := range r.held {
			if h == t.id {
				delete(r.held, m)
			}
		}
	}
	t.state, t.at, t.mod = "parked", at, mod
	r.mu.Unlock()
	r.msgs <- t
	<-t.resume
}

func optMod(id int) string {
	if id < 0 {
		return "nil"
	}
	return strconv.Itoa(id)
}

func hook(name string, arg any) {
	r := cur
	if r == nil {
		return
	}
	g := gid()
	r.mu.Lock()
	t := r.byGid[g]
	if name == "loader.thread.begin" {
		if id, ok := r.pkgThread[arg.(string)]; ok {
			t = r.threads[id]
			r.byGid[g] = t
		}
	}
	r.mu.Unlock()
	if t == nil {
		return // a goroutine of an abandoned run, or not a loader goroutine
	}
	switch name {
	case "loader.thread.begin":
		r.park(t, name, -1)
	case "loader.call":
		r.park(t, name, -1)
	case "loader.found", "loader.new":
		r.mu.Lock()
		r.emit(t, "call.%d.%s", r.modID(arg), strings.TrimPrefix(name, "loader."))
		r.mu.Unlock()
	case "module.setLoading", "module.getLoading", "module.done", "module.wait.lock":
		r.park(t, name, r.modID(arg))
	case "module.setLoading.set":
		info, _ := dawn.VerifModule(arg)
		l := -1
		if info.Loading != "" {
			l = r.ids[info.Loading]
		}
		r.mu.Lock()
		r.emit(t, "set.%d.%s", r.ids[info.Label], optMod(l))
		r.mu.Unlock()
	case "module.getLoading.read":
		info, _ := dawn.VerifModule(arg)
		l := -1
		if info.Loading != "" {
			l = r.ids[info.Loading]
		}
		r.mu.Lock()
		r.emit(t, "get.%d.%s", r.ids[info.Label], optMod(l))
		r.mu.Unlock()
	case "module.load":
		r.mu.Lock()
		m := r.modID(arg)
		r.hookExecs[m]++
		r.emit(t, "exec.%d", m)
		r.mu.Unlock()
	case "module.wait.locked":
		r.mu.Lock()
		m := r.modID(arg)
		r.held[m] = t.id
		r.emit(t, "wlocked.%d", m)
		r.mu.Unlock()
	case "module.wait.cyclic":
		r.mu.Lock()
		m := r.modID(arg)
		delete(r.held, m) // the deferred Unlock runs before the next scheduling point
		r.emit(t, "cyclic.%d", m)
		r.mu.Unlock()
	case "module.wait.block":
		r.mu.Lock()
		m := r.modID(arg)
		delete(r.held, m) // cond.Wait releases m.m
		r.emit(t, "block.%d", m)
		t.state, t.at, t.mod = "blocked", "wait", m
		r.mu.Unlock()
		if r.controlled {
			r.msgs <- t // "about to block": accounted for, does not stop
		}
	case "module.done.set":
		info, _ := dawn.VerifModule(arg)
		r.mu.Lock()
		m := r.ids[info.Label]
		res := "ok"
		r.done[m] = "ok"
		if info.Failed {
			res = "fail"
			r.done[m] = "err"
			if strings.Contains(info.Err, "cyclic dependency") {
				r.done[m] = "cyc"
			}
		}
		r.emit(t, "done.%d.%s", m, res)
		if r.controlled {
			// announce the wake-up before Broadcast, while the mutex is still held
			for _, w := range r.threads {
				if w.state == "blocked" && w.mod == m {
					w.state = "running"
					r.outstanding++
					r.emit(w, "woke.%d", m)
				}
			}
		}
		r.mu.Unlock()
	case "loader.thread.end":
		r.mu.Lock()
		r.emit(t, "end")
		t.state = "done"
		for m, h := range r.held { // wait's deferred Unlock has run
			if h == t.id {
				delete(r.held, m)
			}
		}
		r.mu.Unlock()
		if r.controlled {
			r.msgs <- t
		}
	}
}

type chooser func(enabled []int, step int, emitted int) int

type lresult struct {
	outcome   string // done | DEADLOCK | HANG
	decisions []int  // thread resumed at each decision
	trace     []string
	final     string
	class     string
	errText   string
	targets   []string
	flags     []string
	evLoading map[string]int
	stuck     string
	fairness  int // decisions overridden to keep a spinning chain walk from starving the others
}

const loaderWatchdog = 30 * time.Second

func newLrun(g *graph, controlled bool) *lrun {
	r := &lrun{controlled: controlled, g: g, ids: map[string]int{}, pkgThread: map[string]int{}, byGid: map[int64]*lthr{},
		msgs: make(chan *lthr, 64), held: map[int]int{}, hookExecs: map[int]int{}, done: map[int]string{}}
	for m := range g.loads {
		r.ids[g.label(m)] = m
	}
	for i := range g.roots {
		r.pkgThread[g.pkg(i)] = i
		r.threads = append(r.threads, &lthr{id: i, resume: make(chan struct{}), state: "new"})
	}
	return r
}

type loadOut struct {
	proj *dawn.Project
	err  error
}

// a Project that is loaded once and then reloaded (Project.Reload, as watch mode and GC do)
type session struct {
	proj *dawn.Project
	ev   *events
}

func (e *events) reset() {
	e.mu.Lock()
	e.loading = map[string]int{}
	e.mu.Unlock()
}

func startLoad(root string, r *lrun, ev *events, sess *session) chan loadOut {
	if sess != nil && sess.proj != nil {
		ch := make(chan loadOut, 1)
		go func() {
			err := sess.proj.Reload()
			ch <- loadOut{sess.proj, err}
		}()
		return ch
	}
	slow := starlark.NewBuiltin("slow", func(*starlark.Thread, *starlark.Builtin, starlark.Tuple, []starlark.Tuple) (starlark.Value, error) {
		r := cur // the run in progress (a Project outlives the run that created it when it is reloaded)
		if r != nil && r.slowMax > 0 {
			r.mu.Lock()
			d := r.slowRng.below(r.slowMax)
			r.mu.Unlock()
			if d > 0 {
				time.Sleep(time.Duration(d) * time.Microsecond)
			} else {
				runtime.Gosched()
			}
		}
		return starlark.None, nil
	})
	ch := make(chan loadOut, 1)
	go func() {
		proj, err := dawn.Load(root, &dawn.LoadOptions{Events: ev, Builtins: starlark.StringDict{"slow": slow}})
		if sess != nil {
			sess.proj, sess.ev = proj, ev
		}
		ch <- loadOut{proj, err}
	}()
	return ch
}

func (res *lresult) collect(r *lrun, ev *events, lo *loadOut) {
	r.mu.Lock()
	res.trace = append([]string{}, r.log...)
	execs := map[int]int{}
	for k, v := range r.hookExecs {
		execs[k] = v
	}
	done := map[int]string{}
	for k, v := range r.done {
		done[k] = v
	}
	r.mu.Unlock()
	ev.mu.Lock()
	res.evLoading = map[string]int{}
	for k, v := range ev.loading {
		res.evLoading[k] = v
	}
	ev.mu.Unlock()
	if lo == nil {
		res.final = res.outcome
		return
	}
	switch {
	case lo.err == nil:
		res.class = "ok"
		for _, t := range lo.proj.Targets() {
			res.targets = append(res.targets, t.Label().String())
		}
		for _, f := range lo.proj.Flags() {
			res.flags = append(res.flags, f.Name)
		}
	case strings.Contains(lo.err.Error(), "cyclic dependency"):
		res.class = "cyclic"
		res.errText = lo.err.Error()
	default:
		res.class = "other"
		res.errText = lo.err.Error()
	}
	var ex, ok, fl []string
	anyCyc, anyErr := false, false
	for m := range r.g.loads {
		ex = append(ex, fmt.Sprintf("%d:%d", m, execs[m]))
		switch done[m] {
		case "ok":
			ok = append(ok, strconv.Itoa(m))
		case "cyc":
			anyCyc = true
			fl = append(fl, strconv.Itoa(m))
		case "err":
			anyErr = true
			fl = append(fl, strconv.Itoa(m))
		}
	}
	// which errors the finished modules carry (what Load returns is one of them, in map order; judged separately)
	modClass := "ok"
	switch {
	case anyCyc && anyErr:
		modClass = "mixed"
	case anyCyc:
		modClass = "cyclic"
	case anyErr:
		modClass = "other"
	}
	cj := func(xs []string) string {
		if len(xs) == 0 {
			return "-"
		}
		return strings.Join(xs, ",")
	}
	res.final = fmt.Sprintf("class=%s execs=%s ok=%s failed=%s", modClass, cj(ex), cj(ok), cj(fl))
	// Load's own verdict must be one of the modules' errors (or success when there is none)
	switch modClass {
	case "ok", "cyclic", "other":
		if res.class != modClass {
			res.final += " load=" + res.class
		}
	case "mixed":
		if res.class != "cyclic" && res.class != "other" {
			res.final += " load=" + res.class
		}
	}
}

// runControlled loads the tree at root with the loader goroutines serialised by choose.
func runControlled(g *graph, root string, choose chooser) *lresult {
	return runControlledS(g, root, choose, nil)
}

func sessionEvents(sess *session) *events {
	if sess != nil && sess.proj != nil {
		sess.ev.reset()
		return sess.ev
	}
	return &events{loading: map[string]int{}}
}

// runControlledS: with a session whose Project exists already, the load is a Reload of that Project
func runControlledS(g *graph, root string, choose chooser, sess *session) *lresult {
	r := newLrun(g, true)
	ev := sessionEvents(sess)
	res := &lresult{}
	r.outstanding = len(g.roots) // every loader goroutine parks at its begin hook
	cur = r
	loadCh := startLoad(root, r, ev, sess)
	quiesce := func() bool {
		for {
			r.mu.Lock()
			o := r.outstanding
			r.mu.Unlock()
			if o == 0 {
				return true
			}
			select {
			case <-r.msgs:
				r.mu.Lock()
				r.outstanding--
				r.mu.Unlock()
			case <-time.After(loaderWatchdog):
				return false
			}
		}
	}
	var lo *loadOut
	lastResumed, streak, walkTotal := 0, 0, 0
	lastRun := make([]int, len(g.roots))
	_ = lastResumed
	for step := 0; ; step++ {
		if !quiesce() {
			res.outcome = "HANG"
			break
		}
		r.mu.Lock()
		var enabled []int
		alldone := true
		var st []string
		for _, t := range r.threads {
			if t.state != "done" {
				alldone = false
			}
			if t.state == "parked" {
				lockPoint := t.at == "module.setLoading" || t.at == "module.getLoading" || t.at == "module.done" || t.at == "module.wait.lock"
				if _, h := r.held[t.mod]; !(lockPoint && h) {
					enabled = append(enabled, t.id)
				}
			}
			st = append(st, fmt.Sprintf("%d:%s@%s(%d)", t.id, t.state, t.at, t.mod))
		}
		emitted := len(r.log)
		r.mu.Unlock()
		if alldone {
			res.outcome = "done"
			select {
			case x := <-loadCh:
				lo = &x
			case <-time.After(loaderWatchdog):
				res.outcome = "HANG"
			}
			break
		}
		if len(enabled) == 0 {
			res.outcome = "DEADLOCK"
			res.stuck = strings.Join(st, " ")
			break
		}
		k := choose(enabled, step, emitted)
		t := r.threads[enabled[k]]
		// Weak fairness. A chain walk that keeps reading `loading` fields can go round a cycle that two OTHER goroutines
		// are about to detect and un-publish (DESIGN.md section 4); the Go scheduler is preemptive, so those goroutines do
		// run. A prioritised schedule must not starve them for ever: after a run of walk reads longer than any
		// cycle-free walk, another enabled goroutine goes first. If there is none, the walker spins among blocked
		// goroutines for good: that is a hang.
		if t.at == "module.getLoading" {
			streak++ // consecutive decisions spent on chain-walk reads since the last override (by any goroutine)
		} else {
			streak = 0
		}
		if streak > 2*len(g.loads)+2 {
			// the enabled goroutine that has waited longest goes first
			alt := enabled[0]
			for _, e := range enabled {
				if lastRun[e] < lastRun[alt] {
					alt = e
				}
			}
			t = r.threads[alt]
			streak = 0
			res.fairness++
		}
		if t.at == "module.getLoading" {
			walkTotal++
		} else {
			walkTotal = 0
		}
		if walkTotal > 400*(len(g.loads)+1)*len(r.threads) {
			// nothing but chain-walk reads for this long although every goroutine got its turn: the walkers go round
			// a cycle of `loading` fields that nobody is going to un-publish
			res.outcome = "LIVELOCK"
			res.stuck = strings.Join(st, " ")
			break
		}
		lastRun[t.id] = step + 1
		lastResumed = t.id
		res.decisions = append(res.decisions, t.id)
		r.mu.Lock()
		t.state = "running"
		r.outstanding = 1
		r.mu.Unlock()
		t.resume <- struct{}{}
	}
	cur = nil
	res.collect(r, ev, lo)
	return res
}

// runFree loads the tree with no controller; slow() sleeps up to slowMax microseconds.
func runFree(g *graph, root string, seed uint64, slowMax int, timeout time.Duration) *lresult {
	return runFreeS(g, root, seed, slowMax, timeout, nil)
}

func runFreeS(g *graph, root string, seed uint64, slowMax int, timeout time.Duration, sess *session) *lresult {
	r := newLrun(g, false)
	r.slowRng = &rng{seed}
	r.slowMax = slowMax
	ev := sessionEvents(sess)
	res := &lresult{outcome: "done"}
	cur = r
	loadCh := startLoad(root, r, ev, sess)
	var lo *loadOut
	select {
	case x := <-loadCh:
		lo = &x
	case <-time.After(timeout):
		// not back in time: a hang, unless the machine merely starved us - keep waiting while the log still grows
		for idle := 0; idle < 4 && lo == nil; {
			r.mu.Lock()
			n := len(r.log)
			r.mu.Unlock()
			select {
			case x := <-loadCh:
				lo = &x
			case <-time.After(250 * time.Millisecond):
				r.mu.Lock()
				if len(r.log) == n {
					idle++
				} else {
					idle = 0
				}
				r.mu.Unlock()
			}
		}
		if lo == nil {
			res.outcome = "HANG"
		}
	}
	cur = nil
	res.collect(r, ev, lo)
	return res
}

// ---------------------------------------------------------------- judge (the property's own predicate)
var (
	out   = bufio.NewWriterSize(os.Stdout, 1<<20)
	stats = map[string]int{}
	nviol = 0
)

// the loads already made on the Project of the sequence in progress (nil: a single Load)
type seqContext struct {
	graphs    []string
	decisions [][]int
}

var seq *seqContext

func violation(kind string, g *graph, res *lresult, mode string, detail string) {
	nviol++
	stats["violations"]++
	stats["violation_"+kind]++
	if nviol > 6 {
		return
	}
	in := map[string]any{"graph": g.String(), "mode": mode, "schedule": res.decisions}
	if seq != nil {
		// a (re)load of a sequence on one Project: the replay is the whole sequence up to here
		gs := append(append([]string{}, seq.graphs...), g.String())
		sched := []int{}
		for _, d := range seq.decisions {
			sched = append(append(sched, d...), -1)
		}
		sched = append(sched, res.decisions...)
		in = map[string]any{"graph": strings.Join(gs, " => "), "mode": "reload-" + mode, "schedule": sched}
		detail = fmt.Sprintf("load %d of the sequence (Load, then Reload on the same Project): %s", len(seq.graphs)+1, detail)
	}
	b, _ := json.Marshal(map[string]any{"kind": kind, "detail": detail, "trace": strings.Join(res.trace, ","), "input": in})
	fmt.Fprintf(out, "V\t%s\n", b)
}

func judge(g *graph, res *lresult, mode string) {
	stats["judged_runs"]++
	reach, cyclic := g.analyse()
	if res.outcome != "done" {
		stats["hangs"]++
		violation("hang", g, res, mode, fmt.Sprintf("%s: Load does not return (cyclic graph: %v) %s", res.outcome, cyclic, res.stuck))
		return
	}
	for m := range g.loads {
		if n := res.evLoading[g.label(m)]; n > 1 {
			violation("executed-twice", g, res, mode, fmt.Sprintf("%s: %d ModuleLoading events", g.label(m), n))
		}
	}
	if g.brokenReachable() {
		// some reachable module cannot be fetched: Load must fail (with that error, or with the cyclic one if there is
		// a cycle as well) - and must return
		stats["unfetchable_graph_runs"]++
		if res.class == "ok" || (res.class == "cyclic" && !cyclic) {
			violation("unfetchable-module-not-reported", g, res, mode, fmt.Sprintf("Load returned class %s %q", res.class, res.errText))
		}
		return
	}
	if cyclic {
		stats["cyclic_graph_runs"]++
		if res.class != "cyclic" {
			violation("cycle-not-reported", g, res, mode, fmt.Sprintf("Load returned class %s %q", res.class, res.errText))
		}
		return
	}
	stats["acyclic_graph_runs"]++
	if res.class != "ok" {
		violation("acyclic-load-failed", g, res, mode, fmt.Sprintf("Load returned class %s %q", res.class, res.errText))
		return
	}
	var wantT, wantF []string
	for m := range g.loads {
		n := res.evLoading[g.label(m)]
		if reach[m] {
			if _, isDep := g.mirrorOf(m); !isDep {
				wantT = append(wantT, fmt.Sprintf("%s:t%d", g.pkg(m), m))
				wantF = append(wantF, fmt.Sprintf("%s.f%d", g.pkg(m)[2:], m))
			}
			if n != 1 {
				violation("not-loaded-once", g, res, mode, fmt.Sprintf("%s: %d ModuleLoading events", g.label(m), n))
			}
		} else if n != 0 {
			violation("loaded-unreachable", g, res, mode, g.label(m))
		}
	}
	sort.Strings(wantT)
	sort.Strings(wantF)
	if strings.Join(wantT, " ") != strings.Join(res.targets, " ") || strings.Join(wantF, " ") != strings.Join(res.flags, " ") {
		violation("targets-or-flags-differ", g, res, mode, fmt.Sprintf("targets %v want %v; flags %v want %v", res.targets, wantT, res.flags, wantF))
	}
}

func emitTrace(stream, ver string, g *graph, res *lresult) {
	if res.outcome == "HANG" || res.outcome == "LIVELOCK" || (len(g.broken) > 0 && !modelHasBroken) {
		return
	}
	tr := "-"
	if len(res.trace) > 0 {
		tr = strings.Join(res.trace, ",")
	}
	fmt.Fprintf(out, "C\t%s\ttrace %s %s %s\tok %s\n", stream, ver, g.modelString(), tr, res.final)
	stats["traces_"+stream]++
}

// ---------------------------------------------------------------- schedulers
func randomChooser(r *rng) chooser {
	return func(enabled []int, step, emitted int) int { return r.below(len(enabled)) }
}

func pctChooser(r *rng, n, d int) chooser {
	prio := make([]int, n)
	for i := range prio {
		prio[i] = i + d
	}
	for i := n - 1; i > 0; i-- {
		j := r.below(i + 1)
		prio[i], prio[j] = prio[j], prio[i]
	}
	change := map[int]int{}
	for i := 0; i < d; i++ {
		change[r.below(40)] = d - 1 - i
	}
	pick := func(enabled []int) int {
		best := 0
		for i, t := range enabled {
			if prio[t] > prio[enabled[best]] {
				best = i
			}
		}
		return best
	}
	return func(enabled []int, step, emitted int) int {
		b := pick(enabled)
		if p, ok := change[step]; ok {
			prio[enabled[b]] = p
			b = pick(enabled)
		}
		return b
	}
}

// follow a schedule supplied by the Lean model: one thread id per observable step
func modelChooser(want []int) chooser {
	pos, last, lastEmitted := 0, -1, 0
	return func(enabled []int, step, emitted int) int {
		if last >= 0 {
			// the previous resume produced (emitted - lastEmitted) observable steps of thread `last`
			for n := emitted - lastEmitted; n > 0 && pos < len(want) && want[pos] == last; n-- {
				pos++
			}
		}
		k := 0
		for p := pos; p < len(want); p++ {
			found := false
			for i, t := range enabled {
				if t == want[p] {
					k, found = i, true
					break
				}
			}
			if found {
				break
			}
		}
		last, lastEmitted = enabled[k], emitted
		return k
	}
}

func replayChooser(sched []int) chooser {
	return func(enabled []int, step, emitted int) int {
		if step < len(sched) {
			for i, t := range enabled {
				if t == sched[step] {
					return i
				}
			}
		}
		return 0
	}
}

// ---------------------------------------------------------------- jobs (executed in a child process)
type job struct {
	Graph    string `json:"graph"`
	Mode     string `json:"mode"` // random | pct | model | replay | free
	N        int    `json:"n"`
	Seed     uint64 `json:"seed"`
	Schedule []int  `json:"schedule,omitempty"`
	Ver      string `json:"ver"`
	SlowMax  int    `json:"slow,omitempty"`
	Trace    int    `json:"trace"` // emit every Trace-th trace for validation (0 = none)
	// a free-running Load that has not returned after this long is a hang (the generated modules sleep < 1 ms in total)
	FreeTimeoutMs int `json:"free_timeout_ms,omitempty"`
}

// the generated trees live on a memory file system when there is one (every Load writes its index and temp dir)
func tempBase() string {
	if os.Getenv("TMPDIR") == "" {
		if st, err := os.Stat("/dev/shm"); err == nil && st.IsDir() {
			if f, err := os.CreateTemp("/dev/shm", "verif-probe"); err == nil {
				f.Close()
				os.Remove(f.Name())
				return "/dev/shm"
			}
		}
	}
	return ""
}

// rewriteTree replaces the generated files of the tree by those of g (the project's .dawn directory stays)
func rewriteTree(root string, g *graph) error {
	ents, err := os.ReadDir(root)
	if err != nil {
		return err
	}
	for _, e := range ents {
		if e.IsDir() && e.Name() != ".dawn" {
			if err := os.RemoveAll(filepath.Join(root, e.Name())); err != nil {
				return err
			}
		}
	}
	return g.write(root)
}

// runReloadJob: Load the first tree, then edit the tree and Reload the same Project for every further graph. Every
// (re)load is judged like a fresh Load of the tree as it is then, and its trace must be a run of the model from the
// initial state (empty registry).
func runReloadJob(j job) {
	var graphs []*graph
	for _, gs := range strings.Split(j.Graph, " => ") {
		g, err := parseGraph(gs)
		if err != nil {
			fmt.Fprintln(os.Stderr, err)
			return
		}
		graphs = append(graphs, g)
	}
	root, err := os.MkdirTemp(tempBase(), "verif-loader")
	if err != nil {
		panic(err)
	}
	defer os.RemoveAll(root)
	r := &rng{j.Seed}
	// the replay schedule: one part per load, separated by -1
	var parts [][]int
	part := []int{}
	for _, d := range j.Schedule {
		if d == -1 {
			parts = append(parts, part)
			part = []int{}
		} else {
			part = append(part, d)
		}
	}
	parts = append(parts, part)
	for i := 0; i < j.N; i++ {
		sess := &session{}
		seq = &seqContext{}
		for li, g := range graphs {
			if err := rewriteTree(root, g); err != nil {
				panic(err)
			}
			var res *lresult
			mode := "sched"
			switch j.Mode {
			case "reload-random":
				res = runControlledS(g, root, randomChooser(r), sess)
			case "reload-pct":
				res = runControlledS(g, root, pctChooser(r, len(g.roots), 1+r.below(3)), sess)
			case "reload-replay":
				var sc []int
				if li < len(parts) {
					sc = parts[li]
				}
				res = runControlledS(g, root, replayChooser(sc), sess)
			default: // reload-free
				mode = "free"
				res = runFreeS(g, root, r.next(), j.SlowMax, time.Duration(j.FreeTimeoutMs)*time.Millisecond, sess)
			}
			if li == 0 {
				stats["reload_sequences"]++
			} else {
				stats["reloads_"+mode]++
			}
			before := nviol
			stats["fairness_overrides"] += res.fairness
			judge(g, res, mode)
			stream := "loader.reload"
			if mode == "free" {
				stream = "loader.reload-stress"
			}
			if j.Trace > 0 && (i%j.Trace == 0 || nviol > before) {
				emitTrace(stream, j.Ver, g, res)
			}
			if j.Mode == "reload-replay" {
				fmt.Fprintf(out, "# load %d outcome %s final %s trace %s\n", li+1, res.outcome, res.final, strings.Join(res.trace, ","))
			}
			seq.graphs = append(seq.graphs, g.String())
			seq.decisions = append(seq.decisions, res.decisions)
			if res.outcome != "done" || sess.proj == nil {
				break // hung, or the very first Load failed: there is no Project to reload
			}
		}
		seq = nil
	}
}

func runJob(j job, idx int) {
	if strings.HasPrefix(j.Mode, "reload-") {
		runReloadJob(j)
		return
	}
	g, err := parseGraph(j.Graph)
	if err != nil {
		fmt.Fprintln(os.Stderr, err)
		return
	}
	root, err := os.MkdirTemp(tempBase(), "verif-loader")
	if err != nil {
		panic(err)
	}
	defer os.RemoveAll(root)
	if err := g.write(root); err != nil {
		panic(err)
	}
	r := &rng{j.Seed}
	for i := 0; i < j.N; i++ {
		var res *lresult
		mode := "sched"
		switch j.Mode {
		case "random":
			res = runControlled(g, root, randomChooser(r))
			stats["schedules_random"]++
		case "pct":
			res = runControlled(g, root, pctChooser(r, len(g.roots), 1+r.below(3)))
			stats["schedules_pct"]++
		case "model":
			res = runControlled(g, root, modelChooser(j.Schedule))
			stats["schedules_model"]++
		case "replay":
			res = runControlled(g, root, replayChooser(j.Schedule))
			stats["schedules_replay"]++
		case "free":
			mode = "free"
			res = runFree(g, root, r.next(), j.SlowMax, time.Duration(j.FreeTimeoutMs)*time.Millisecond)
			stats["runs_free"]++
		}
		before := nviol
		stats["fairness_overrides"] += res.fairness
		judge(g, res, mode)
		stream := "loader.sched"
		if mode == "free" {
			stream = "loader.stress"
		}
		if j.Trace > 0 && (i%j.Trace == 0 || nviol > before) {
			emitTrace(stream, j.Ver, g, res)
		}
		if j.Mode == "replay" {
			fmt.Fprintf(out, "# outcome %s final %s trace %s\n", res.outcome, res.final, strings.Join(res.trace, ","))
		}
		if res.outcome != "done" && mode == "free" {
			// the hung Load's goroutines stay blocked for good; one is enough to make the point for this graph
			break
		}
	}
}

func childMain(spec string) {
	var jobs []job
	b, err := os.ReadFile(spec)
	if err != nil {
		panic(err)
	}
	if err := json.Unmarshal(b, &jobs); err != nil {
		panic(err)
	}
	dawn.VerifHook = hook
	// a private HOME: the module cache of required projects lives under it, pre-populated by the tree writer
	home, err := os.MkdirTemp(tempBase(), "verif-loader-home")
	if err != nil {
		panic(err)
	}
	defer os.RemoveAll(home)
	os.Setenv("HOME", home)
	homedir.DisableCache = true
	for i, j := range jobs {
		fmt.Fprintf(out, "B\t%d\n", i)
		out.Flush()
		runJob(j, i)
	}
	sb, _ := json.Marshal(stats)
	fmt.Fprintf(out, "J\t%s\n", sb)
	out.Flush()
}

// runBatch executes jobs in a child process under a watchdog and returns its records
type batchOut struct {
	lines []string
	stats map[string]int
}

func runBatch(jobs []job, timeout time.Duration) batchOut {
	bo := batchOut{stats: map[string]int{}}
	if len(jobs) == 0 {
		return bo
	}
	f, err := os.CreateTemp("", "verif-loader-jobs")
	if err != nil {
		panic(err)
	}
	defer os.Remove(f.Name())
	b, _ := json.Marshal(jobs)
	f.Write(b)
	f.Close()
	ctx, cancel := context.WithTimeout(context.Background(), timeout)
	defer cancel()
	cmd := exec.CommandContext(ctx, os.Args[0], "-child", f.Name())
	cmd.Stderr = os.Stderr
	outb, err := cmd.Output()
	bo.stats["child_processes"]++
	lastJob := -1
	sawJ := false
	for _, line := range strings.Split(string(outb), "\n") {
		switch {
		case strings.HasPrefix(line, "B\t"):
			lastJob, _ = strconv.Atoi(line[2:])
		case strings.HasPrefix(line, "J\t"):
			sawJ = true
			var js map[string]int
			if json.Unmarshal([]byte(line[2:]), &js) == nil {
				for k, v := range js {
					bo.stats[k] += v
				}
			}
		case strings.HasPrefix(line, "C\t"), strings.HasPrefix(line, "V\t"), strings.HasPrefix(line, "#"):
			bo.lines = append(bo.lines, line)
		}
	}
	if !sawJ {
		// the child was killed by the watchdog (or crashed) while running job lastJob
		bo.stats["child_watchdog_kills"]++
		bo.stats["violations"]++
		jb := job{}
		if lastJob >= 0 && lastJob < len(jobs) {
			jb = jobs[lastJob]
		}
		in := map[string]any{"graph": jb.Graph, "mode": "free", "schedule": []int{}}
		vb, _ := json.Marshal(map[string]any{"kind": "hang", "detail": fmt.Sprintf("child process did not finish within %v (err %v) while running job %+v", timeout, err, jb), "input": in})
		bo.lines = append(bo.lines, "V\t"+string(vb))
	}
	return bo
}

// runBatches: the batches run in parallel child processes; records are relayed in batch order
func runBatches(batches [][]job, timeout time.Duration, workers int) {
	outs := make([]batchOut, len(batches))
	sem := make(chan struct{}, workers)
	var wg sync.WaitGroup
	for i := range batches {
		wg.Add(1)
		sem <- struct{}{}
		go func(i int) {
			defer wg.Done()
			outs[i] = runBatch(batches[i], timeout)
			<-sem
		}(i)
	}
	wg.Wait()
	for _, bo := range outs {
		for _, l := range bo.lines {
			fmt.Fprintln(out, l)
		}
		for k, v := range bo.stats {
			stats[k] += v
		}
	}
}

func main() {
	seed := flag.Uint64("seed", 1, "")
	tier := flag.String("tier", "quick", "")
	ver := flag.String("ver", "f", "model version the traces are validated against: w (as written) | f (fixed)")
	child := flag.String("child", "", "internal: run the jobs in this file")
	listSmall := flag.Bool("list-small", false, "print the small graphs for which the check asks the model for schedules and outcomes")
	modelSched := flag.String("model-schedules", "", "file with lines `<graph>\\t<tid,tid,…>`: schedules supplied by the Lean model")
	replay := flag.String("replay", "", `json {"graph": …, "mode": "sched"|"free", "schedule": [thread ids]}`)
	flag.Parse()
	defer out.Flush()

	if *child != "" {
		childMain(*child)
		return
	}
	if *replay != "" {
		var in struct {
			Graph    string `json:"graph"`
			Mode     string `json:"mode"`
			Schedule []int  `json:"schedule"`
		}
		if err := json.Unmarshal([]byte(*replay), &in); err != nil {
			fmt.Fprintln(os.Stderr, err)
			os.Exit(2)
		}
		j := job{Graph: in.Graph, Mode: "replay", N: 1, Schedule: in.Schedule, Ver: *ver, Trace: 1}
		if strings.Contains(in.Graph, " => ") {
			j.Mode = "reload-replay"
			if in.Mode == "reload-free" {
				j = job{Graph: in.Graph, Mode: "reload-free", N: 100, Seed: *seed, Ver: *ver, SlowMax: 300, Trace: 50, FreeTimeoutMs: 3000}
			}
		} else if in.Mode == "free" {
			j = job{Graph: in.Graph, Mode: "free", N: 300, Seed: *seed, Ver: *ver, SlowMax: 300, Trace: 50, FreeTimeoutMs: 3000}
		}
		runBatches([][]job{{j}}, 5*time.Minute, 1)
		return
	}

	thorough := *tier == "thorough"
	r := &rng{*seed}

	// the small graphs: fixed shapes first (the D4 shape among them), then seeded ones
	small := []string{
		"0,1/2;2;3;-",       // two packages share //lib:m2 which loads m3   (D4)
		"0,1/2;2;3;4;-",     // … a longer helper chain
		"0/1;2;1",           // 2-cycle behind one package
		"0/1;2;3;1",         // 3-cycle behind one package
		"0,1/2;3;3;2",       // 2-cycle entered from both ends by two packages
		"0,1/2;3;3;4;2",     // 3-cycle entered at two points
		"0/1;1",             // self-load
		"0,1/1,2;2;-",       // a BUILD file loaded by its own goroutine and by a peer
		"0,1/1,2;0;-",       // BUILD files loading each other
		"0,1,2/3;3;3;4;-",   // three packages, one shared helper chain
		"0,1/2,3;3,2;4;4;-", // diamond entered in opposite orders
	}
	nSmall := 12
	if thorough {
		nSmall = 60
	}
	for i := 0; i < nSmall; i++ {
		g := genGraph(r, kinds[i%len(kinds)])
		if len(g.loads) <= 6 && len(g.roots) <= 3 {
			small = append(small, g.String())
		}
	}
	if *listSmall {
		for _, s := range small {
			fmt.Fprintln(out, s)
		}
		return
	}

	t0 := time.Now()
	var jobs []job
	// 1. schedules supplied by the model (shortest way into a deadlock of the model as it stands)
	if *modelSched != "" {
		b, _ := os.ReadFile(*modelSched)
		for _, line := range strings.Split(string(b), "\n") {
			f := strings.Split(line, "\t")
			if len(f) != 2 || f[1] == "" {
				continue
			}
			var sched []int
			for _, x := range strings.Split(f[1], ",") {
				n, _ := strconv.Atoi(x)
				sched = append(sched, n)
			}
			jobs = append(jobs, job{Graph: f[0], Mode: "model", N: 1, Schedule: sched, Ver: *ver, Trace: 1})
		}
	}
	// 2. small graphs: many random and PCT schedules each
	per := 60
	if thorough {
		per = 400
	}
	for _, s := range small {
		jobs = append(jobs, job{Graph: s, Mode: "random", N: per, Seed: r.next(), Ver: *ver, Trace: 3})
		jobs = append(jobs, job{Graph: s, Mode: "pct", N: per, Seed: r.next(), Ver: *ver, Trace: 3})
	}
	// 3. generated graphs of every kind (1-4 packages, up to 9 modules): random + PCT schedules, then free-running
	nGraphs := 120
	perG := 12
	freeG := 6
	freeMs := 1500
	if thorough {
		freeMs = 3000
		nGraphs = 1500
		perG = 40
		freeG = 20
	}
	// //lib:m2.dawn and dep//lib:m2.dawn (a required project), loaded in both orders by two packages
	for _, fixed := range []string{"0,1/2,3;3,2;-;-/-/-/3:2", "0,1,2/3,4;4;3;-;-/-/-/4:3"} {
		jobs = append(jobs, job{Graph: fixed, Mode: "random", N: perG, Seed: r.next(), Ver: *ver, Trace: 2})
		jobs = append(jobs, job{Graph: fixed, Mode: "free", N: freeG, Seed: r.next(), Ver: *ver, SlowMax: 200, Trace: 2, FreeTimeoutMs: freeMs})
	}
	for i := 0; i < nGraphs; i++ {
		g := genGraph(r, kinds[i%len(kinds)])
		jobs = append(jobs, job{Graph: g.String(), Mode: "random", N: perG, Seed: r.next(), Ver: *ver, Trace: 2})
		jobs = append(jobs, job{Graph: g.String(), Mode: "pct", N: perG, Seed: r.next(), Ver: *ver, Trace: 2})
		jobs = append(jobs, job{Graph: g.String(), Mode: "free", N: freeG, Seed: r.next(), Ver: *ver, SlowMax: 200, Trace: 2, FreeTimeoutMs: freeMs})
	}
	// 4. reload sequences: Load, then edit the tree and Reload the same Project 1-3 times (watch mode, GC, library callers)
	nSeq, perS, freeS := 40, 5, 3
	if thorough {
		nSeq, perS, freeS = 500, 15, 8
	}
	fixedSeqs := []string{
		"0,1/2;2;3;- => 0,1/2;2;3;-",                       // unchanged tree
		"0/1;- => 0/1;-/1/1 => 0/1;-",                      // a syntax error introduced and repaired
		"0,1/2;2;- => 0,1/2;2;3;- => 0,1/2;2;-",            // unused helper file added and removed
		"0/1;2;- => 0/1;2,3;-;- => 0/1;-;-;-",              // a load added, then loads removed
		"0/1;2;- => 0/1;2;1 => 0/1;2;-",                    // a cycle introduced and removed
		"0,1/2;2;- => 0,1/2;2;- => 0,1/2;2;- => 0,1/2;2;-", // three reloads
	}
	for i := 0; i < nSeq+len(fixedSeqs); i++ {
		var gs string
		if i < len(fixedSeqs) {
			gs = fixedSeqs[i]
		} else {
			gs = seqString(genSequence(r))
		}
		jobs = append(jobs, job{Graph: gs, Mode: "reload-random", N: perS, Seed: r.next(), Ver: *ver, Trace: 1})
		jobs = append(jobs, job{Graph: gs, Mode: "reload-pct", N: perS, Seed: r.next(), Ver: *ver, Trace: 1})
		jobs = append(jobs, job{Graph: gs, Mode: "reload-free", N: freeS, Seed: r.next(), Ver: *ver, SlowMax: 200, Trace: 1, FreeTimeoutMs: freeMs})
	}
	stats["reload_sequences_generated"] = nSeq + len(fixedSeqs)
	stats["graphs_small"] = len(small)
	stats["graphs_generated"] = nGraphs
	// batches of jobs, each in its own child process under a watchdog
	bs := 40
	wd := 90 * time.Second
	if thorough {
		bs = 30
		wd = 6 * time.Minute
	}
	var batches [][]job
	for i := 0; i < len(jobs); i += bs {
		e := i + bs
		if e > len(jobs) {
			e = len(jobs)
		}
		batches = append(batches, jobs[i:e])
	}
	workers := runtime.NumCPU() / 4
	if workers < 1 {
		workers = 1
	}
	if workers > 4 {
		workers = 4
	}
	runBatches(batches, wd, workers)
	stats["wall_ms"] = int(time.Since(t0).Milliseconds())
	b, _ := json.Marshal(stats)
	fmt.Fprintf(out, "S\t%s\n", b)
}

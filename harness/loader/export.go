//go:build verif

// Overlaid into the root package of the repository (as verif_export_loader.go) by the C06 check, so that the
// harness under cmd/verif_loader can read the unexported module type handed to the verifPoint hooks.
// Not part of /repo.
package dawn

import "github.com/pgavlin/dawn/label"

// VerifModuleInfo describes the argument of a module.* / loader.* hook. The fields are read without locking:
// the hooks that use Loading/Failed are called inside the critical section of m.m (or, for Failed, by the
// goroutine that has just written it).
type VerifModuleInfo struct {
	Label   string
	Loading string // label of m.loading, "" for nil
	Loaded  bool
	Failed  bool
	Err     string
}

func VerifModule(arg any) (VerifModuleInfo, bool) {
	switch m := arg.(type) {
	case *module:
		if m == nil {
			return VerifModuleInfo{}, false
		}
		info := VerifModuleInfo{Label: m.label.String(), Loaded: m.loaded, Failed: m.err != nil}
		if m.loading != nil {
			info.Loading = m.loading.label.String()
		}
		if m.err != nil {
			info.Err = m.err.Error()
		}
		return info, true
	case *label.Label:
		return VerifModuleInfo{Label: m.String()}, true
	}
	return VerifModuleInfo{}, false
}
